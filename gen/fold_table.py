#!/usr/bin/env python3
"""Translator for C06: re-extracts, from /repo's working tree,

  * the `match (op, …)` arms of `combine_binary_op`, `combine_unary_op`, `combine_cmp` and the rewrites of
    `remove_useless_binary_op`               (sway-ir/src/optimize/constants.rs)
  * the arithmetic / bitwise / shift / comparison / not arms of `const_eval_intrinsic`
                                             (sway-core/src/ir_generation/const_eval.rs)
  * the bodies of the `U256` methods those arms call      (sway-types/src/u256.rs)
  * which VM instruction the backend emits per IR operator (sway-core/src/asm_generation/fuel/fuel_asm_builder.rs)

into lean/SwayVerif/Generated/FoldTable.lean as DATA (`foldTable : List Arm`, `simpTable : List Simp`,
`lowering : List Lower`). It is a pattern matcher over source text that knows the exact shapes present
today. FAIL CLOSED: anything it does not recognise becomes `.unknown "<text>"`, for which
Lemmas/ConstFold.lean has no soundness lemma, so `Props/C06.lean` stops compiling.

Usable standalone (`python3 gen/fold_table.py [repo_root]`) and as a `gen=[…]` step of a check SPEC.
"""
import hashlib
import os
import re
import sys

VERIF = os.path.dirname(os.path.dirname(os.path.abspath(__file__)))
OUT = os.path.join(VERIF, "lean/SwayVerif/Generated/FoldTable.lean")

CONSTANTS_RS = "sway-ir/src/optimize/constants.rs"
CONST_EVAL_RS = "sway-core/src/ir_generation/const_eval.rs"
U256_RS = "sway-types/src/u256.rs"
ASM_BUILDER_RS = "sway-core/src/asm_generation/fuel/fuel_asm_builder.rs"


# ----------------------------------------------------------------------------- tiny Rust text helpers

def strip_comments(src):
    out, i, n = [], 0, len(src)
    while i < n:
        c = src[i]
        if c == '"':
            j = i + 1
            while j < n and src[j] != '"':
                j += 2 if src[j] == "\\" else 1
            out.append(src[i:j + 1])
            i = j + 1
        elif src.startswith("//", i):
            j = src.find("\n", i)
            i = n if j < 0 else j
        elif src.startswith("/*", i):
            j = src.find("*/", i)
            i = n if j < 0 else j + 2
        else:
            out.append(c)
            i += 1
    return "".join(out)


def norm(s):
    """Collapse whitespace; no space around punctuation that rustfmt may wrap at."""
    s = re.sub(r"\s+", " ", s).strip()
    s = re.sub(r"\s*\.\s*", ".", s)
    s = re.sub(r"\(\s+", "(", s)
    s = re.sub(r"\s+\)", ")", s)
    s = re.sub(r",\s*\)", ")", s)
    s = re.sub(r",\s*\}", " }", s)
    return s


def matching(src, i):
    """Index of the bracket closing the one at src[i]."""
    pairs = {"(": ")", "[": "]", "{": "}"}
    stack = []
    n = len(src)
    while i < n:
        c = src[i]
        if c == '"':
            i += 1
            while i < n and src[i] != '"':
                i += 2 if src[i] == "\\" else 1
        elif c in pairs:
            stack.append(pairs[c])
        elif stack and c == stack[-1]:
            stack.pop()
            if not stack:
                return i
        i += 1
    raise ValueError("unbalanced")


def fn_body(src, name):
    m = re.search(r"\bfn\s+%s\s*(<[^>]*>)?\s*\(" % re.escape(name), src)
    if not m:
        return None
    close = matching(src, m.end() - 1)
    i = src.index("{", close)
    return src[i + 1:matching(src, i)]


def block_after(src, marker_re, start=0):
    """Text inside the `{…}` that follows the first match of marker_re (searching from `start`)."""
    m = re.compile(marker_re).search(src, start)
    if not m:
        return None, -1
    i = src.index("{", m.end() - 1)
    j = matching(src, i)
    return src[i + 1:j], j


def split_arms(body):
    """[(pattern, expr)] of a match body. expr is either a `{…}` block (braces kept) or text up to the `,`."""
    arms, i, n = [], 0, len(body)
    while True:
        while i < n and body[i] in " \t\r\n,":
            i += 1
        if i >= n:
            break
        # pattern: up to `=>` at depth 0
        depth, j = 0, i
        while j < n:
            c = body[j]
            if c in "([{":
                depth += 1
            elif c in ")]}":
                depth -= 1
            elif depth == 0 and body.startswith("=>", j):
                break
            j += 1
        if j >= n:
            break
        pat = body[i:j].strip()
        j += 2
        while j < n and body[j] in " \t\r\n":
            j += 1
        if j < n and body[j] == "{":
            k = matching(body, j)
            expr = body[j:k + 1]
            i = k + 1
        else:
            depth, k = 0, j
            while k < n:
                c = body[k]
                if c == '"':
                    k += 1
                    while k < n and body[k] != '"':
                        k += 2 if body[k] == "\\" else 1
                elif c in "([{":
                    depth += 1
                elif c in ")]}":
                    depth -= 1
                elif c == "," and depth == 0:
                    break
                k += 1
            expr = body[j:k]
            i = k + 1
        arms.append((norm(pat), norm(expr)))
    return arms


def lean_str(s):
    s = norm(s)
    if len(s) > 160:
        s = s[:157] + "..."
    return '"' + s.replace("\\", "\\\\").replace('"', '\\"') + '"'


# ----------------------------------------------------------------------------- u256.rs bodies

BIGOPS = {"+": "add", "-": "sub", "*": "mul", "/": "div", "%": "rem", "&": "and", "|": "or", "^": "xor",
          "shl": "shl", "shr": "shr", "bitand": "and", "bitor": "or", "bitxor": "xor", "rem": "rem"}


def u256_bodies(src):
    """name -> Lean U256Body term. Inherent methods by name; operator trait impls as `op:<Trait>`."""
    res = {}
    impl, _ = block_after(src, r"\bimpl\s+U256\s*\{")
    names = re.findall(r"\bpub\s+fn\s+(\w+)\s*\(", impl or "")
    for name in names:
        body = fn_body(impl, name)
        res[name] = classify_u256_body(norm(body))
    for trait, fname in (("BitAnd", "bitand"), ("BitOr", "bitor"), ("BitXor", "bitxor"), ("Rem", "rem")):
        blk, _ = block_after(src, r"impl<'a>\s+std::ops::%s<&'a U256>\s+for\s+&'a U256\s*\{" % trait)
        body = fn_body(blk, fname) if blk else None
        res["op:" + trait] = classify_u256_body(norm(body)) if body is not None else '.unknown "missing impl %s"' % trait
    blk, _ = block_after(src, r"impl\s+std::ops::Not\s+for\s+&U256\s*\{")
    body = norm(fn_body(blk, "not")) if blk else ""
    if body == "let mut bytes = self.to_be_bytes(); bytes.iter_mut().for_each(|b| *b = !*b); U256(BigUint::from_bytes_be(&bytes))":
        res["op:Not"] = ".notBytes32"
    else:
        res["op:Not"] = ".unknown " + lean_str(body or "missing impl Not")
    return res


def classify_u256_body(b):
    m = re.fullmatch(r"let r = &self\.0 ([+*]) &other\.0; \(r\.bits\(\) <= (\d+)\)\.then_some\(Self\(r\)\)", b)
    if m:
        return ".bitsLe .%s %s" % (BIGOPS[m.group(1)], m.group(2))
    if b == "(self.0 >= other.0).then(|| Self(&self.0 - &other.0))":
        return ".geThenSub"
    m = re.fullmatch(r"other\.0\.is_zero\(\)\.not\(\)\.then\(\|\| Self\(&self\.0 ([/%]) &other\.0\)\)", b)
    if m:
        return ".nonZeroThen .%s" % BIGOPS[m.group(1)]
    m = re.fullmatch(r"if other\.0 == BigUint::ZERO \{ None \} else \{ Some\(U256\(&self\.0 ([/%]) &other\.0\)\) \}", b)
    if m:
        return ".ifZeroNoneElse .%s" % BIGOPS[m.group(1)]
    m = re.fullmatch(r"U256\(\(&self\.0\)\.(shr)\(other\)\)", b)
    if m:
        return ".plain .%s" % BIGOPS[m.group(1)]
    m = re.fullmatch(r"U256\(\(&self\.0\)\.(bitand|bitor|bitxor|rem)\(&rhs\.0\)\)", b)
    if m:
        return ".plain .%s" % BIGOPS[m.group(1)]
    m = re.fullmatch(r"if \*other >= (\d+) && !self\.0\.is_zero\(\) \{ return None; \} let r = \(&self\.0\)\.shl\(other\); "
                     r"\(r\.bits\(\) <= (\d+)\)\.then_some\(Self\(r\)\)", b)
    if m:
        return ".shlGuardedBitsLe %s %s" % (m.group(1), m.group(2))
    # the unguarded shape (before the `fix:` that bounds the shift): functionally sound, but `u256_shl_bounded` fails
    m = re.fullmatch(r"let r = \(&self\.0\)\.shl\(other\); \(r\.bits\(\) <= (\d+)\)\.then_some\(Self\(r\)\)", b)
    if m:
        return ".bitsLe .shl %s" % m.group(1)
    return ".unknown " + lean_str(b)


# ----------------------------------------------------------------------------- method recognition

U64_METHODS = {
    "checked_add": "checkedAdd", "checked_sub": "checkedSub", "checked_mul": "checkedMul",
    "checked_div": "checkedDiv", "checked_rem": "checkedRem",
    "wrapping_add": "wrappingAdd", "wrapping_sub": "wrappingSub", "wrapping_mul": "wrappingMul",
    "saturating_add": "saturatingAdd", "saturating_sub": "saturatingSub", "saturating_mul": "saturatingMul",
    "checked_shl": "checkedShl", "checked_shr": "checkedShr",
    "bitand": "bitAnd", "bitor": "bitOr", "bitxor": "bitXor",
}
U64_INFIX = {"&": "bitAnd", "|": "bitOr", "^": "bitXor"}
U256_INFIX = {"&": "op:BitAnd", "|": "op:BitOr", "^": "op:BitXor", "%": "op:Rem"}
KINDS = {"Uint": ".uint", "U256": ".u256", "B256": ".b256"}
OPS = {"Add": ".add", "Sub": ".sub", "Mul": ".mul", "Div": ".div", "Mod": ".mod", "And": ".and", "Or": ".or",
       "Xor": ".xor", "Lsh": ".lsh", "Rsh": ".rsh", "Not": ".not"}

NOT_MASK_TEXT = norm("""val.get_content(context).ty.get_uint_width(context).and_then(|width| {
    let max = match width { 8 => u8::MAX as u64, 16 => u16::MAX as u64, 32 => u32::MAX as u64, 64 => u64::MAX,
    _ => return None, }; Some(Uint((!v) & max)) })""")


def big(u256, key):
    return ".big (%s)" % u256.get(key, '.unknown "no U256 method %s"' % key)


def ir_binary_method(expr, lk, rk, l, r, u256):
    """Method term for an arm `(Op, lk(l), rk(r)) => expr` of combine_binary_op."""
    L, R = re.escape(l), re.escape(r)
    if lk == "Uint" and rk == "Uint":
        m = re.fullmatch(r"%s\.(\w+)\(\*%s\)\.map\(Uint\)" % (L, R), expr)
        if m and m.group(1) in U64_METHODS and m.group(1).startswith("checked_") and m.group(1) not in ("checked_shl", "checked_shr"):
            return ".u64 .%s" % U64_METHODS[m.group(1)]
        m = re.fullmatch(r"Some\(Uint\(%s\.(\w+)\(\*%s\)\)\)" % (L, R), expr)
        if m and m.group(1) in U64_METHODS and not m.group(1).startswith("checked_"):
            return ".u64 .%s" % U64_METHODS[m.group(1)]
        m = re.fullmatch(r"Some\(Uint\(%s ([&|^]) %s\)\)" % (L, R), expr)
        if m:
            return ".u64 .%s" % U64_INFIX[m.group(1)]
        m = re.fullmatch(r"u32::try_from\(\*%s\)\.ok\(\)\.and_then\(\|%s\| %s\.(checked_shl|checked_shr)\(%s\)\.map\(Uint\)\)" % (R, R, L, R), expr)
        if m:
            return ".u32TryFromThen .%s" % U64_METHODS[m.group(1)]
    if lk in ("U256", "B256") and rk == lk:
        m = re.fullmatch(r"%s\.(checked_\w+)\(%s\)\.map\(%s\)" % (L, R, lk), expr)
        if m:
            return big(u256, m.group(1))
        m = re.fullmatch(r"Some\(%s\(%s ([&|^%%]) %s\)\)" % (lk, L, R), expr)
        if m:
            return big(u256, U256_INFIX[m.group(1)])
    if lk in ("U256", "B256") and rk == "Uint":
        m = re.fullmatch(r"%s\.(checked_\w+)\(%s\)\.map\(%s\)" % (L, R, lk), expr)
        if m:
            return big(u256, m.group(1))
        m = re.fullmatch(r"Some\(%s\(%s\.(shr|shl)\(%s\)\)\)" % (lk, L, R), expr)
        if m:
            return big(u256, m.group(1))
    return ".unknown " + lean_str(expr)


def arm(src, op, lk, rk, method, note=""):
    return "  ⟨%s, %s, %s, %s, %s⟩" % (src, op, lk, rk, method) + ("   -- " + note if note else "")


def unknown_arm(src, text):
    return arm(src, ".add", ".any", ".any", ".unknown " + lean_str(text))


# ----------------------------------------------------------------------------- constants.rs

def extract_ir_fold(src, u256):
    arms, simps = [], []
    # --- combine_binary_op
    body = fn_body(src, "combine_binary_op")
    mb, _ = block_after(body or "", r"let v = match \(op, &val1\.value, &val2\.value\)\s*\{")
    if mb is None:
        arms.append(unknown_arm(".irFold", "combine_binary_op: match (op, &val1.value, &val2.value) not found"))
    else:
        for pat, expr in split_arms(mb):
            if pat == "_":
                if expr != "None":
                    arms.append(unknown_arm(".irFold", "combine_binary_op fallback: " + expr))
                continue
            m = re.fullmatch(r"\((\w+), (\w+)\((\w+)\), (\w+)\((\w+)\)\)", pat)
            if not m or m.group(1) not in OPS or m.group(2) not in KINDS or m.group(4) not in KINDS:
                arms.append(unknown_arm(".irFold", "combine_binary_op arm: %s => %s" % (pat, expr)))
                continue
            op, lk, l, rk, r = m.groups()
            arms.append(arm(".irFold", OPS[op], KINDS[lk], KINDS[rk], ir_binary_method(expr, lk, rk, l, r, u256),
                            "%s => %s" % (pat, expr[:70])))
    # --- combine_unary_op
    body = fn_body(src, "combine_unary_op")
    mb, _ = block_after(body or "", r"let v = match \(op, &val\.get_content\(context\)\.value\)\s*\{")
    if mb is None:
        arms.append(unknown_arm(".irFold", "combine_unary_op: match not found"))
    else:
        for pat, expr in split_arms(mb):
            if pat == "_":
                if expr != "None":
                    arms.append(unknown_arm(".irFold", "combine_unary_op fallback: " + expr))
                continue
            m = re.fullmatch(r"\((\w+), (\w+)\((\w+)\)\)", pat)
            if not m or m.group(1) not in OPS or m.group(2) not in KINDS:
                arms.append(unknown_arm(".irFold", "combine_unary_op arm: %s => %s" % (pat, expr)))
                continue
            op, k, v = m.groups()
            if k == "Uint" and v == "v" and expr == NOT_MASK_TEXT:
                meth = ".notMaskWidth"
            elif k in ("U256", "B256") and expr == "Some(%s(!%s))" % (k, v):
                meth = big(u256, "op:Not")
            else:
                meth = ".unknown " + lean_str(expr)
            arms.append(arm(".irFold", OPS[op], KINDS[k], ".any", meth, pat))
    # --- combine_cmp
    body = fn_body(src, "combine_cmp")
    mb, _ = block_after(body or "", r"match pred\s*\{")
    if mb is None:
        arms.append(unknown_arm(".irFold", "combine_cmp: match pred not found"))
    else:
        seen = set()
        for pat, expr in split_arms(mb):
            if pat == "Predicate::Equal":
                seen.add(pat)
                meth = ".handleEq" if expr == "Some((inst_val, block, val1 == val2))" else ".unknown " + lean_str(expr)
                arms.append(arm(".irFold", ".eq", ".any", ".any", meth, expr))
            elif pat in ("Predicate::GreaterThan", "Predicate::LessThan"):
                seen.add(pat)
                op = ".gt" if pat.endswith("GreaterThan") else ".lt"
                inner, end = block_after(expr, r"let r = match \(&val1\.get_content\(context\)\.value, &val2\.get_content\(context\)\.value\)\s*\{")
                tail = norm(expr[end + 1:]) if inner is not None else ""
                if inner is None or tail != "; Some((inst_val, block, r)) }":
                    arms.append(arm(".irFold", op, ".any", ".any", ".unknown " + lean_str(expr)))
                    continue
                for p2, e2 in split_arms(inner):
                    if p2 == "_":
                        if e2.startswith("{ unreachable!("):
                            arms.append(arm(".irFold", op, ".any", ".any", ".fallbackCrash", pat + ": _ => unreachable!"))
                        else:
                            arms.append(arm(".irFold", op, ".any", ".any", ".unknown " + lean_str(e2)))
                        continue
                    m = re.fullmatch(r"\((\w+)\((\w+)\), (\w+)\((\w+)\)\)", p2)
                    if not m or m.group(1) not in KINDS or m.group(3) != m.group(1):
                        arms.append(arm(".irFold", op, ".any", ".any", ".unknown " + lean_str(p2 + " => " + e2)))
                        continue
                    k, l, _, r = m.groups()
                    meth = {"%s > %s" % (l, r): ".gtOp", "%s < %s" % (l, r): ".ltOp"}.get(e2, ".unknown " + lean_str(e2))
                    arms.append(arm(".irFold", op, KINDS[k], KINDS[k], meth, "%s: %s => %s" % (pat, p2, e2)))
            else:
                arms.append(unknown_arm(".irFold", "combine_cmp arm: %s" % pat))
        for need in ("Predicate::Equal", "Predicate::GreaterThan", "Predicate::LessThan"):
            if need not in seen:
                arms.append(unknown_arm(".irFold", "combine_cmp: no arm for " + need))
    # --- remove_useless_binary_op
    body = fn_body(src, "remove_useless_binary_op")
    mb, _ = block_after(body or "", r"match \(op, val1, val2\)\s*\{")
    if mb is None:
        simps.append('  ⟨.add, true, 0, true⟩   -- UNRECOGNISED: match (op, val1, val2) not found')
    else:
        for pat, expr in split_arms(mb):
            if pat == "_":
                if expr != "None":
                    simps.append("  ⟨.add, true, 0, true⟩   -- UNRECOGNISED fallback " + expr)
                continue
            m = re.fullmatch(r"\((\w+), (Some\(Uint\((\d+)\)\)|_), (Some\(Uint\((\d+)\)\)|_)\)", pat)
            e = re.fullmatch(r"Some\(\(block, candidate, \*arg([12])\)\)", expr)
            if not m or not e or m.group(1) not in OPS or (m.group(3) is None) == (m.group(5) is None):
                # fail closed: a rewrite that is certainly unsound (0 + x -> 0), so the theorem breaks
                simps.append("  ⟨.add, true, 0, true⟩   -- UNRECOGNISED %s => %s" % (pat, expr))
                continue
            on_left = m.group(3) is not None
            c = m.group(3) if on_left else m.group(5)
            simps.append("  ⟨%s, %s, %s, %s⟩   -- %s => %s" % (OPS[m.group(1)], "true" if on_left else "false", c,
                                                              "true" if e.group(1) == "1" else "false", pat, expr))
    return arms, simps


# ----------------------------------------------------------------------------- const_eval.rs

INTR = {"Add": ".add", "Sub": ".sub", "Mul": ".mul", "Div": ".div", "Mod": ".mod", "And": ".and", "Or": ".or",
        "Xor": ".xor", "Lsh": ".lsh", "Rsh": ".rsh"}


def ce_wrapper_ok(block, kind):
    """After `let result = match intrinsic.kind {…};` the block must wrap Some(x) into the same kind and map
    None to an error (no value substituted)."""
    m = re.search(r"match result \{", block)
    if not m:
        return False
    inner = block[m.end():matching(block, m.end() - 1)]
    arms = split_arms(inner)
    if len(arms) != 2:
        return False
    (p1, e1), (p2, e2) = arms
    mm = re.fullmatch(r"Some\((\w+)\)", p1)
    if not mm:
        return False
    x = mm.group(1)
    ok1 = e1 == "Ok(Some(ConstantContent { ty, value: ConstantValue::%s(%s) }))" % (kind, x)
    ok2 = p2 == "None" and e2 == "Err(ConstEvalError::CannotBeEvaluatedToConst { span: intrinsic.span.clone() })"
    return ok1 and ok2


def ce_method(expr, lk, rk, a1, a2, u256):
    A, B = re.escape(a1), re.escape(a2)
    if lk == "Uint" and rk == "Uint":
        m = re.fullmatch(r"%s\.(checked_\w+)\(\*%s\)" % (A, B), expr)
        if m and m.group(1) in U64_METHODS and m.group(1) not in ("checked_shl", "checked_shr"):
            return ".u64 .%s" % U64_METHODS[m.group(1)]
        m = re.fullmatch(r"Some\(%s\.(\w+)\(\*?%s\)\)" % (A, B), expr)
        if m and m.group(1) in U64_METHODS and not m.group(1).startswith("checked_"):
            return ".u64 .%s" % U64_METHODS[m.group(1)]
        m = re.fullmatch(r"u32::try_from\(\*%s\)\.ok\(\)\.and_then\(\|%s\| %s\.(checked_shl|checked_shr)\(%s\)\)" % (B, B, A, B), expr)
        if m:
            return ".u32TryFromThen .%s" % U64_METHODS[m.group(1)]
    else:
        m = re.fullmatch(r"%s\.(checked_\w+)\(%s\)" % (A, B), expr)
        if m:
            return big(u256, m.group(1))
        m = re.fullmatch(r"Some\(%s\.(bitand|bitor|bitxor|rem)\(%s\)\)" % (A, B), expr)
        if m:
            return big(u256, {"bitand": "op:BitAnd", "bitor": "op:BitOr", "bitxor": "op:BitXor", "rem": "op:Rem"}[m.group(1)])
        m = re.fullmatch(r"Some\(%s\.(shr|shl)\(%s\)\)" % (A, B), expr)
        if m:
            return big(u256, m.group(1))
    return ".unknown " + lean_str(expr)


def extract_const_eval(src, u256):
    arms = []
    body = fn_body(src, "const_eval_intrinsic")
    if body is None:
        return [unknown_arm(".constEval", "const_eval_intrinsic not found")]
    top, _ = block_after(body, r"match intrinsic\.kind\s*\{")
    if top is None:
        return [unknown_arm(".constEval", "match intrinsic.kind not found")]
    groups = {}
    for pat, expr in split_arms(top):
        groups[pat] = expr
    want = {
        "Intrinsic::Add | Intrinsic::Sub | Intrinsic::Mul | Intrinsic::Div | Intrinsic::Mod": ["Add", "Sub", "Mul", "Div", "Mod"],
        "Intrinsic::And | Intrinsic::Or | Intrinsic::Xor": ["And", "Or", "Xor"],
        "Intrinsic::Lsh | Intrinsic::Rsh": ["Lsh", "Rsh"],
    }
    covered = set()
    for pat, expr in groups.items():
        names = [p.strip().replace("Intrinsic::", "") for p in pat.split("|")]
        if not any(n in INTR or n in ("Eq", "Gt", "Lt", "Not") for n in names):
            continue
        if pat in want:
            inner, _ = block_after(expr, r"let c = match \(&args\[0\]\.get_content\(lookup\.context\)\.value, &args\[1\]\.get_content\(lookup\.context\)\.value\)\s*\{")
            if inner is None:
                arms.append(unknown_arm(".constEval", pat + ": operand match not found"))
                continue
            for p2, e2 in split_arms(inner):
                if p2 == "_":
                    if e2.startswith("{ panic!("):
                        for name in want[pat]:
                            arms.append(arm(".constEval", INTR[name], ".any", ".any", ".fallbackCrash", pat + ": _ => panic!"))
                    else:
                        arms.append(unknown_arm(".constEval", pat + " fallback " + e2))
                    continue
                m = re.fullmatch(r"\((\w+)\((\w+)\), (\w+)\((?:ref )?(\w+)\)\)", p2)
                if not m or m.group(1) not in KINDS or m.group(3) not in KINDS:
                    arms.append(unknown_arm(".constEval", pat + " arm " + p2))
                    continue
                lk, a1, rk, a2 = m.groups()
                ops_blk, _ = block_after(e2, r"let result = match intrinsic\.kind\s*\{")
                wrapper = ce_wrapper_ok(e2, lk)
                seen_ops = set()
                for p3, e3 in split_arms(ops_blk or ""):
                    if p3 == "_":
                        if e3 != "unreachable!()":
                            arms.append(unknown_arm(".constEval", p2 + " inner fallback " + e3))
                        continue
                    name = p3.replace("Intrinsic::", "")
                    if name not in INTR:
                        arms.append(unknown_arm(".constEval", p2 + " inner arm " + p3))
                        continue
                    seen_ops.add(name)
                    meth = ce_method(e3, lk, rk, a1, a2, u256) if wrapper else ".unknown " + lean_str("result wrapper of " + p2 + " changed")
                    arms.append(arm(".constEval", INTR[name], KINDS[lk], KINDS[rk], meth, "%s %s => %s" % (p2, p3, e3[:60])))
                if ops_blk is None or seen_ops != set(want[pat]):
                    arms.append(unknown_arm(".constEval", "%s %s: operators %s" % (pat, p2, sorted(seen_ops))))
            covered.update(want[pat])
        elif pat == "Intrinsic::Eq":
            ok = norm(expr) == norm("""{ assert!(args.len() == 2); let c = ConstantContent { ty: Type::get_bool(lookup.context),
                value: ConstantValue::Bool(args[0] == args[1]) }; Ok(Some(Constant::unique(lookup.context, c))) }""")
            arms.append(arm(".constEval", ".eq", ".any", ".any", ".handleEq" if ok else ".unknown " + lean_str(expr), "args[0] == args[1]"))
            covered.add("Eq")
        elif pat in ("Intrinsic::Gt", "Intrinsic::Lt"):
            op = ".gt" if pat.endswith("Gt") else ".lt"
            head = "match (&args[0].get_content(lookup.context).value, &args[1].get_content(lookup.context).value) {"
            if not expr.startswith(head):
                arms.append(arm(".constEval", op, ".any", ".any", ".unknown " + lean_str(expr)))
            else:
                inner = expr[len(head):matching(expr, len(head) - 1)]
                for p2, e2 in split_arms(inner):
                    if p2 == "_":
                        if e2.startswith("{ unreachable!("):
                            arms.append(arm(".constEval", op, ".any", ".any", ".fallbackCrash", pat + ": _ => unreachable!"))
                        else:
                            arms.append(arm(".constEval", op, ".any", ".any", ".unknown " + lean_str(e2)))
                        continue
                    m = re.fullmatch(r"\(ConstantValue::(\w+)\((\w+)\), ConstantValue::(\w+)\((\w+)\)\)", p2)
                    if not m or m.group(1) not in KINDS or m.group(3) != m.group(1):
                        arms.append(arm(".constEval", op, ".any", ".any", ".unknown " + lean_str(p2)))
                        continue
                    k, l, _, r = m.groups()
                    mm = re.fullmatch(r"\{ let c = ConstantContent \{ ty: Type::get_bool\(lookup\.context\), value: ConstantValue::Bool\((\w+) ([<>]) (\w+)\) \}; "
                                      r"Ok\(Some\(Constant::unique\(lookup\.context, c\)\)\) \}", e2)
                    if mm and (mm.group(1), mm.group(3)) == (l, r):
                        meth = ".gtOp" if mm.group(2) == ">" else ".ltOp"
                    else:
                        meth = ".unknown " + lean_str(e2)
                    arms.append(arm(".constEval", op, KINDS[k], KINDS[k], meth, "%s: %s" % (pat, p2)))
            covered.add(pat[-2:])
        elif pat == "Intrinsic::Not":
            inner, _ = block_after(expr, r"let c = match &arg\.get_content\(lookup\.context\)\.value\s*\{")
            if inner is None:
                arms.append(arm(".constEval", ".not", ".any", ".any", ".unknown " + lean_str(expr)))
            else:
                for p2, e2 in split_arms(inner):
                    if p2 == "_":
                        if e2.startswith("{ unreachable!("):
                            arms.append(arm(".constEval", ".not", ".any", ".any", ".fallbackCrash", "Intrinsic::Not: _ => unreachable!"))
                        else:
                            arms.append(arm(".constEval", ".not", ".any", ".any", ".unknown " + lean_str(e2)))
                        continue
                    m = re.fullmatch(r"ConstantValue::(\w+)\((\w+)\)", p2)
                    if not m or m.group(1) not in KINDS:
                        arms.append(arm(".constEval", ".not", ".any", ".any", ".unknown " + lean_str(p2)))
                        continue
                    k, v = m.groups()
                    if k == "Uint":
                        want_txt = norm("""{ let %s = match arg.get_content(lookup.context).ty.get_uint_width(lookup.context) {
                            Some(8) => !(*%s as u8) as u64, Some(16) => !(*%s as u16) as u64, Some(32) => !(*%s as u32) as u64,
                            Some(64) => !%s, _ => unreachable!("Invalid unsigned integer width"), };
                            Ok(Some(ConstantContent { ty: arg.get_content(lookup.context).ty, value: ConstantValue::Uint(%s) })) }""" % ((v,) * 6))
                        meth = ".notCastWidth" if e2 == want_txt else ".unknown " + lean_str(e2)
                    else:
                        want_txt = "Ok(Some(ConstantContent { ty: arg.get_content(lookup.context).ty, value: ConstantValue::%s(%s.not()) }))" % (k, v)
                        meth = big(u256, "op:Not") if e2 == want_txt else ".unknown " + lean_str(e2)
                    arms.append(arm(".constEval", ".not", KINDS[k], ".any", meth, p2))
            covered.add("Not")
        else:
            arms.append(unknown_arm(".constEval", "unexpected grouping of intrinsics: " + pat))
    for need in list(INTR) + ["Eq", "Gt", "Lt", "Not"]:
        if need not in covered:
            arms.append(unknown_arm(".constEval", "no arm found for Intrinsic::" + need))
    return arms


# ----------------------------------------------------------------------------- fuel_asm_builder.rs

NARROW_INSTR = {"ADD": ".add", "SUB": ".sub", "MUL": ".mul", "DIV": ".div", "MOD": ".mod", "AND": ".and", "OR": ".or",
                "XOR": ".xor", "SLL": ".sll", "SRL": ".srl", "NOT": ".not", "EQ": ".eq", "LT": ".lt", "GT": ".gt"}
WIDE_OPS = {"Add": ".add", "Sub": ".sub", "Not": ".not", "Or": ".or", "Xor": ".xor", "And": ".and", "Lsh": ".shl", "Rsh": ".shr"}
CMP_MODES = {"Equality": ".eq", "LessThan": ".lt", "GreaterThan": ".gt", "Inequality": ".ne",
             "LessThanOrEquals": ".lte", "GreaterThanOrEquals": ".gte"}
PREDS = {"Predicate::Equal": ".eq", "Predicate::LessThan": ".lt", "Predicate::GreaterThan": ".gt"}


def lower(op, wide, instr, note=""):
    return "  ⟨%s, %s, %s⟩" % (op, "true" if wide else "false", instr) + ("   -- " + note if note else "")


def extract_lowering(src):
    rows = []

    def unknown(op, wide, text):
        rows.append(lower(op, wide, ".unknown " + lean_str(text)))

    def arms_of(fname, marker):
        body = fn_body(src, fname)
        if body is None:
            return None
        mb, _ = block_after(body, marker)
        return split_arms(mb) if mb is not None else None

    # narrow binary
    arms = arms_of("compile_binary_op", r"let opcode = match op\s*\{")
    if arms is None:
        unknown(".add", False, "compile_binary_op not recognised")
    for pat, expr in arms or []:
        op = OPS.get(pat.replace("BinaryOpKind::", ""))
        m = re.fullmatch(r"Either::Left\(VirtualOp::(\w+)\(res_reg\.clone\(\), val1_reg, val2_reg\)\)", expr)
        if op is None:
            unknown(".add", False, pat + " => " + expr)
        elif m and m.group(1) in NARROW_INSTR:
            rows.append(lower(op, False, NARROW_INSTR[m.group(1)], expr))
        else:
            unknown(op, False, expr)
    # narrow unary
    arms = arms_of("compile_unary_op", r"let opcode = match op\s*\{")
    if arms is None:
        unknown(".not", False, "compile_unary_op not recognised")
    for pat, expr in arms or []:
        m = re.fullmatch(r"Either::Left\(VirtualOp::(\w+)\(res_reg\.clone\(\), val_reg\)\)", expr)
        if pat == "UnaryOpKind::Not" and m and m.group(1) in NARROW_INSTR:
            rows.append(lower(".not", False, NARROW_INSTR[m.group(1)], expr))
        else:
            unknown(".not", False, pat + " => " + expr)
    # narrow cmp
    body = fn_body(src, "compile_cmp")
    mb, _ = block_after(body or "", r"match pred\s*\{")
    if mb is None:
        unknown(".eq", False, "compile_cmp not recognised")
    for pat, expr in split_arms(mb or ""):
        m = re.fullmatch(r"\{ self\.cur_bytecode\.push\(Op \{ opcode: Either::Left\(VirtualOp::(\w+)\(res_reg\.clone\(\), lhs_reg, rhs_reg\)\), comment, owning_span \}\); \}", expr)
        if pat in PREDS and m and m.group(1) in NARROW_INSTR:
            rows.append(lower(PREDS[pat], False, NARROW_INSTR[m.group(1)], "VirtualOp::" + m.group(1)))
        else:
            unknown(PREDS.get(pat, ".eq"), False, pat + " => " + expr)
    # wide binary
    arms = arms_of("compile_wide_binary_op", r"let opcode = match op\s*\{")
    if arms is None:
        unknown(".add", True, "compile_wide_binary_op not recognised")
    for pat, expr in arms or []:
        if pat == "_":
            if expr != "todo!()":
                unknown(".add", True, "fallback " + expr)
            continue
        op = OPS.get(pat.replace("BinaryOpKind::", ""))
        if op is None:
            unknown(".add", True, pat + " => " + expr)
            continue
        m = re.fullmatch(r"VirtualOp::WQOP\(result_reg, val1_reg, val2_reg, VirtualImmediate06::wide_op\(WideOperations::(\w+), (true|false)\)\)", expr)
        if m and m.group(1) in WIDE_OPS:
            rows.append(lower(op, True, "(.wqop %s %s)" % (WIDE_OPS[m.group(1)], m.group(2)), expr[20:]))
            continue
        m = re.fullmatch(r"VirtualOp::WQML\(result_reg, val1_reg, val2_reg, VirtualImmediate06::wide_mul\((true|false), (true|false)\)\)", expr)
        if m:
            rows.append(lower(op, True, "(.wqml %s %s)" % m.groups(), expr[20:]))
            continue
        m = re.fullmatch(r"VirtualOp::WQDV\(result_reg, val1_reg, val2_reg, VirtualImmediate06::wide_div\((true|false)\)\)", expr)
        if m:
            rows.append(lower(op, True, "(.wqdv %s)" % m.group(1), expr[20:]))
            continue
        unknown(op, True, expr)
    # wide modular
    arms = arms_of("compile_wide_modular_op", r"let opcode = match op\s*\{")
    if arms is None:
        unknown(".mod", True, "compile_wide_modular_op not recognised")
    for pat, expr in arms or []:
        if pat == "_":
            if expr != "todo!()":
                unknown(".mod", True, "fallback " + expr)
            continue
        if pat == "BinaryOpKind::Mod" and expr == "VirtualOp::WQAM(result_reg, val1_reg, val2_reg, val3_reg)":
            rows.append(lower(".mod", True, ".wqam", expr))
        else:
            unknown(OPS.get(pat.replace("BinaryOpKind::", ""), ".mod"), True, pat + " => " + expr)
    # wide unary
    arms = arms_of("compile_wide_unary_op", r"let opcode = match op\s*\{")
    if arms is None:
        unknown(".not", True, "compile_wide_unary_op not recognised")
    for pat, expr in arms or []:
        want = "VirtualOp::WQOP(result_reg, val1_reg, VirtualRegister::Constant(ConstantRegister::Zero), VirtualImmediate06::wide_op(crate::asm_lang::WideOperations::Not, false))"
        if pat == "UnaryOpKind::Not" and expr == want:
            # the (ignored) right operand is the zero register taken directly
            rows.append(lower(".not", True, "(.wqop .not false)", "WQOP .., $zero, wide_op(Not, false)"))
        else:
            unknown(".not", True, pat + " => " + expr)
    # wide cmp
    arms = arms_of("compile_wide_cmp_op", r"let opcode = match op\s*\{")
    if arms is None:
        unknown(".eq", True, "compile_wide_cmp_op not recognised")
    for pat, expr in arms or []:
        m = re.fullmatch(r"VirtualOp::WQCM\(res_reg\.clone\(\), val1_reg, val2_reg, VirtualImmediate06::wide_cmp\(WideCmp::(\w+), (true|false)\)\)", expr)
        if pat in PREDS and m and m.group(1) in CMP_MODES:
            rows.append(lower(PREDS[pat], True, "(.wqcm %s %s)" % (CMP_MODES[m.group(1)], m.group(2)), expr[20:]))
        else:
            unknown(PREDS.get(pat, ".eq"), True, pat + " => " + expr)
    return rows


# ----------------------------------------------------------------------------- main

def generate(repo="/repo"):
    def read(rel):
        return strip_comments(open(os.path.join(repo, rel), encoding="utf8").read())
    u256 = u256_bodies(read(U256_RS))
    ir_arms, simps = extract_ir_fold(read(CONSTANTS_RS), u256)
    ce_arms = extract_const_eval(read(CONST_EVAL_RS), u256)
    lowering = extract_lowering(read(ASM_BUILDER_RS))

    def lst(rows):
        if not rows:
            return "[]"
        out = []
        for i, r in enumerate(rows):
            code, sep, note = r.partition("   -- ")
            out.append(code + ("," if i + 1 < len(rows) else "") + (sep + note.replace("\n", " ") if sep else ""))
        return "[\n" + "\n".join(out) + "\n]"

    text = """import SwayVerif.Model.ConstFold
/-! GENERATED by gen/fold_table.py from the working tree of /repo — do not edit.
Sources: %s, %s, %s, %s.
`U256` methods resolved: %s -/
namespace SwayVerif.Generated.FoldTable
open SwayVerif.RustInt SwayVerif.ConstFold

def foldTable : List Arm := %s

def simpTable : List Simp := %s

def lowering : List Lower := %s

end SwayVerif.Generated.FoldTable
""" % (CONSTANTS_RS, CONST_EVAL_RS, U256_RS, ASM_BUILDER_RS,
       "; ".join("%s = %s" % (k, v.replace("-/", "- /")) for k, v in sorted(u256.items()) if k.startswith("checked") or k.startswith("op:") or k in ("shr", "shl")),
       lst(ir_arms + ce_arms), lst(simps), lst(lowering))
    unknowns = text.count(".unknown ") + text.count("UNRECOGNISED")
    return text, dict(arms=len(ir_arms) + len(ce_arms), simps=len(simps), lowering=len(lowering), unknown=unknowns)


def write(repo="/repo"):
    text, stats = generate(repo)
    os.makedirs(os.path.dirname(OUT), exist_ok=True)
    old = open(OUT, encoding="utf8").read() if os.path.exists(OUT) else None
    if old != text:   # keep the mtime when nothing changed (no needless Lean rebuild)
        with open(OUT, "w", encoding="utf8") as f:
            f.write(text)
    stats["sha256"] = hashlib.sha256(text.encode()).hexdigest()
    stats["changed"] = old != text
    return stats


def gen(ctx):
    """`gen=[…]` hook of the check SPEC."""
    import svlib
    stats = write(svlib.REPO)
    ctx.generated["Generated/FoldTable.lean"] = stats
    ctx.log("fold_table: %(arms)d arms, %(simps)d rewrites, %(lowering)d lowering rows, %(unknown)d unrecognised, sha256=%(sha256).12s" % stats)
    if stats["unknown"]:
        ctx.notes.append("fold_table.py: %d unrecognised shapes emitted as .unknown (theorems will not compile)" % stats["unknown"])


if __name__ == "__main__":
    print(write(sys.argv[1] if len(sys.argv) > 1 else "/repo"))
