#!/usr/bin/env python3
"""Translator for C02: re-extracts, from /repo's working tree,

  * the IR pass pipelines that `sway_core::compile_ast_to_ir_to_asm` builds for `OptLevel::Opt0` (debug) and
    `OptLevel::Opt1` (release): the `pass_group.append_pass(X_NAME)` / `append_group(create_o1_pass_group())`
    sequence between `let mut pass_group = PassGroup::default();` and the verification hook
                                                          (sway-core/src/lib.rs)
  * `create_o1_pass_group` and `register_known_passes`     (sway-ir/src/pass_manager.rs)
  * the `*_NAME` constants and the `create_*_pass` -> name map (sway-ir/src/**/*.rs)
  * `Options::default().rounds`                            (sway-ir/src/pass_manager.rs)
  * the `OptLevel::Opt0` chain of the assembly optimiser and `MAX_OPT_ROUNDS`
                                                          (sway-core/src/asm_generation/fuel/optimizations/mod.rs)

into lean/SwayVerif/Generated/PassPipeline.lean as DATA (lists of pass names as lists of character codes, so that
`decide` reduces them). It is a pattern matcher over source text that knows the shapes present today.
FAIL CLOSED: any statement in the extracted regions that it does not recognise becomes a pass named
`UNPARSED:<text>`, which is in no reviewed list, so `Props/C02.lean` (`C02_partial`) stops compiling.

Usable standalone (`python3 gen/pass_pipeline.py [repo_root]`) and as a `gen=[...]` step of a check SPEC.
"""
import hashlib
import os
import re
import sys

VERIF = os.path.dirname(os.path.dirname(os.path.abspath(__file__)))
OUT = os.path.join(VERIF, "lean/SwayVerif/Generated/PassPipeline.lean")
CORE_LIB = "sway-core/src/lib.rs"
PASS_MGR = "sway-ir/src/pass_manager.rs"
ASM_OPT = "sway-core/src/asm_generation/fuel/optimizations/mod.rs"


def strip_comments(src):
    src = re.sub(r"/\*.*?\*/", " ", src, flags=re.S)
    return re.sub(r"//[^\n]*", "", src)


def balanced(src, start):
    """src[start] == '{' -> index just past the matching '}'."""
    depth = 0
    for i in range(start, len(src)):
        if src[i] == "{":
            depth += 1
        elif src[i] == "}":
            depth -= 1
            if depth == 0:
                return i + 1
    raise ValueError("unbalanced braces")


def name_constants(repo):
    consts = {}
    creators = {}
    root = os.path.join(repo, "sway-ir/src")
    for dp, _, fns in os.walk(root):
        for fn in fns:
            if not fn.endswith(".rs"):
                continue
            src = strip_comments(open(os.path.join(dp, fn), encoding="utf8").read())
            for m in re.finditer(r'pub const (\w+_NAME): &str = "([^"]+)";', src):
                consts[m.group(1)] = m.group(2)
            for m in re.finditer(r"pub fn (create_\w+_pass)\(\) -> Pass \{", src):
                end = balanced(src, m.end() - 1)
                nm = re.search(r"name:\s*(\w+_NAME)", src[m.end():end])
                creators[m.group(1)] = nm.group(1) if nm else None
    return consts, creators


def fn_body(src, header_re):
    m = re.search(header_re, src)
    if not m:
        return None
    start = src.index("{", m.end() - 1)
    return src[start + 1:balanced(src, start) - 1]


def statements(body):
    """Top-level `;`-terminated statements and `kw … { … }` blocks of a body, in order."""
    out, i, n = [], 0, len(body)
    while i < n:
        while i < n and body[i].isspace():
            i += 1
        if i >= n:
            break
        j, depth = i, 0
        while j < n:
            c = body[j]
            if c in "({[":
                if c == "{" and depth == 0:
                    j = balanced(body, j)
                    # a block statement ends here unless followed by `else`/`;`
                    k = j
                    while k < n and body[k].isspace():
                        k += 1
                    if body.startswith("else", k):
                        j = k + 4
                        continue
                    if k < n and body[k] == ";":
                        j = k + 1
                    break
                depth += 1
            elif c in ")}]":
                depth -= 1
            elif c == ";" and depth == 0:
                j += 1
                break
            j += 1
        out.append(body[i:j].strip())
        i = j
    return out


def o1_group(pm_src, consts, unknown):
    body = fn_body(pm_src, r"pub fn create_o1_pass_group\(\) -> PassGroup \{")
    names = []
    if body is None:
        unknown.append("create_o1_pass_group not found")
        return ["UNPARSED:create_o1_pass_group"]
    for st in statements(body):
        if re.fullmatch(r"let mut o1 = PassGroup::default\(\);", st) or st == "o1":
            continue
        m = re.fullmatch(r"o1\.append_pass\((\w+)\);", st)
        if m and m.group(1) in consts:
            names.append(consts[m.group(1)])
        else:
            unknown.append(st)
            names.append("UNPARSED:" + st[:60])
    return names


def pipeline(stmts, level, consts, o1, unknown):
    """Interpret the pass-group construction statements for one optimisation level."""
    names = []
    for st in stmts:
        m = re.fullmatch(r"pass_group\.append_pass\((\w+)\);", st)
        if m:
            if m.group(1) in consts:
                names.append(consts[m.group(1)])
            else:
                unknown.append(st)
                names.append("UNPARSED:" + st[:60])
            continue
        if re.fullmatch(r"pass_group\.append_group\(create_o1_pass_group\(\)\);", st):
            names.extend(o1)
            continue
        m = re.match(r"match build_config\.optimization_level \{", st)
        if m:
            inner = st[m.end():st.rindex("}")]
            arms = dict()
            for am in re.finditer(r"OptLevel::(Opt[01]) => \{", inner):
                s = am.end() - 1
                arms[am.group(1)] = inner[s + 1:balanced(inner, s) - 1]
            if set(arms) != {"Opt0", "Opt1"}:
                unknown.append(st)
                names.append("UNPARSED:match-arms")
                continue
            names.extend(pipeline(statements(arms[level]), level, consts, o1, unknown))
            continue
        m = re.match(r"if build_config\.build_target == BuildTarget::Fuel \{", st)
        if m and not re.search(r"\}\s*else", st):
            inner = st[m.end():st.rindex("}")]
            names.extend(pipeline(statements(inner), level, consts, o1, unknown))
            continue
        unknown.append(st)
        names.append("UNPARSED:" + st[:60])
    return names


def generate(repo="/repo"):
    unknown = []
    consts, creators = name_constants(repo)
    pm_src = strip_comments(open(os.path.join(repo, PASS_MGR), encoding="utf8").read())
    core = strip_comments(open(os.path.join(repo, CORE_LIB), encoding="utf8").read())
    asm = strip_comments(open(os.path.join(repo, ASM_OPT), encoding="utf8").read())

    # registered passes
    known = []
    body = fn_body(pm_src, r"pub fn register_known_passes\(pm: &mut PassManager\) \{")
    if body is None:
        unknown.append("register_known_passes not found")
        known.append("UNPARSED:register_known_passes")
    else:
        for st in statements(body):
            m = re.fullmatch(r"pm\.register\((create_\w+_pass)\(\)\);", st)
            if m and creators.get(m.group(1)) in consts:
                known.append(consts[creators[m.group(1)]])
            else:
                unknown.append(st)
                known.append("UNPARSED:" + st[:60])

    o1 = o1_group(pm_src, consts, unknown)

    # pipeline construction region of compile_ast_to_ir_to_asm
    a = core.find("let mut pass_group = PassGroup::default();")
    b = core.find('#[cfg(feature = "fuellabs_sway_verif")]', a)
    if b < 0:
        b = core.find("let mut options: Options", a)
    if a < 0 or b < 0:
        unknown.append("pipeline region not found")
        opt0 = opt1 = ["UNPARSED:pipeline-region"]
    else:
        region = core[a + len("let mut pass_group = PassGroup::default();"):b]
        stmts = statements(region)
        opt0 = pipeline(stmts, "Opt0", consts, o1, unknown)
        opt1 = pipeline(stmts, "Opt1", consts, o1, unknown)
    # nothing else may touch pass_group before run
    tail = core[b:core.find("pass_mgr.run(", b)] if b >= 0 else ""
    extra = [l.strip() for l in tail.splitlines() if "pass_group" in l and "verif_env_pass_group" not in l
             and "Ok(group) => pass_group = group" not in l]
    for l in extra:
        unknown.append(l)
        opt0.append("UNPARSED:" + l[:60])
        opt1.append("UNPARSED:" + l[:60])

    m = re.search(r"rounds:\s*(\d+),", fn_body(pm_src, r"impl Default for Options \{") or "")
    rounds = int(m.group(1)) if m else None
    if rounds is None:
        unknown.append("Options::default().rounds not found")

    # assembly optimiser
    chain = []
    m = re.search(r"OptLevel::Opt0 => self((?:\s*\.\w+\([^)]*\))+),", asm)
    if m:
        chain = re.findall(r"\.(\w+)\(", m.group(1))
    else:
        unknown.append("asm Opt0 chain not found")
        chain = ["UNPARSED:asm-chain"]
    m = re.search(r"const MAX_OPT_ROUNDS: usize = (\d+);", asm)
    max_rounds = int(m.group(1)) if m else None
    # the Opt1 loop must have exactly the shape Model/PassMgr.asmRounds models
    loop_ok = bool(re.search(
        r"for _ in 0\.\.MAX_OPT_ROUNDS \{\s*let old = self\.clone\(\);\s*self = self\.optimize\(data_section, OptLevel::Opt0\);\s*"
        r"self = self\.optimize\(data_section, OptLevel::Opt0\);\s*match self\.ops\.len\(\)\.cmp\(&old\.ops\.len\(\)\) \{\s*"
        r"Ordering::Equal => break,\s*Ordering::Greater => return old,\s*Ordering::Less => \{\}\s*\}\s*\}\s*self", asm))
    if max_rounds is None or not loop_ok:
        unknown.append("asm Opt1 round loop has an unknown shape")
        chain.append("UNPARSED:asm-round-loop")

    def codes(n):
        return "[" + ", ".join(str(ord(c)) for c in n) + "]"

    def lst(names):
        if not names:
            return "[]"
        return "[\n" + "\n".join("  %s%s   -- %s" % (codes(n), "," if i + 1 < len(names) else "", n)
                                  for i, n in enumerate(names)) + "\n]"

    text = """import SwayVerif.Model.PassMgr
/-! GENERATED by gen/pass_pipeline.py from the working tree of /repo — do not edit.
Sources: %s, %s, %s.
Pass names are lists of character codes (see the trailing comments). -/
namespace SwayVerif.Generated.PassPipeline
open SwayVerif.PassMgr

/-- `register_known_passes` -/
def knownPasses : List Name := %s

/-- flattened pass group of a debug build (`OptLevel::Opt0`, `BuildTarget::Fuel`) -/
def opt0 : List Name := %s

/-- flattened pass group of a release build (`OptLevel::Opt1`, `BuildTarget::Fuel`) -/
def opt1 : List Name := %s

/-- `Options::default().rounds` -/
def irRounds : Nat := %d

/-- the `OptLevel::Opt0` chain of `AbstractInstructionSet::optimize` -/
def asmChain : List Name := %s

/-- `MAX_OPT_ROUNDS` -/
def maxOptRounds : Nat := %d

end SwayVerif.Generated.PassPipeline
""" % (CORE_LIB, PASS_MGR, ASM_OPT, lst(known), lst(opt0), lst(opt1), rounds if rounds is not None else 0,
       lst(chain), max_rounds if max_rounds is not None else 0)
    stats = {"known": len(known), "opt0": len(opt0), "opt1": len(opt1), "asm_chain": len(chain),
             "rounds": rounds, "max_opt_rounds": max_rounds, "unknown": len(unknown), "unknown_shapes": unknown[:8],
             "opt0_names": opt0, "opt1_names": opt1,
             "sha256": hashlib.sha256(text.encode()).hexdigest()}
    return text, stats


def write(repo="/repo"):
    text, stats = generate(repo)
    os.makedirs(os.path.dirname(OUT), exist_ok=True)
    old = open(OUT, encoding="utf8").read() if os.path.exists(OUT) else None
    if old != text:
        with open(OUT, "w", encoding="utf8") as f:
            f.write(text)
    return stats


def gen(ctx):
    """`gen=[...]` hook of the check SPEC."""
    import svlib
    stats = write(svlib.REPO)
    ctx.generated["Generated/PassPipeline.lean"] = {k: v for k, v in stats.items() if not k.endswith("_names")}
    ctx.extra["opt0_pipeline"] = stats["opt0_names"]
    ctx.extra["opt1_pipeline"] = stats["opt1_names"]
    ctx.log("pass_pipeline: %(known)d registered, opt0=%(opt0)d opt1=%(opt1)d passes, asm chain=%(asm_chain)d, "
            "%(unknown)d unrecognised, sha256=%(sha256).12s" % stats)
    if stats["unknown"]:
        ctx.notes.append("pass_pipeline.py: %d unrecognised shapes emitted as UNPARSED names (C02_partial will not compile): %s"
                         % (stats["unknown"], stats["unknown_shapes"]))


if __name__ == "__main__":
    print(write(sys.argv[1] if len(sys.argv) > 1 else "/repo"))
