import os
import svlib


def _nontrivial(case, impl, kv):
    if case.startswith("pass "):
        return kv.get("changed") == "1"
    if case.startswith("prog "):
        return kv.get("build") == "1"
    if case.startswith("addr "):
        return kv.get("changed") == "1" and kv.get("exec") in ("ok", "trap")
    return kv.get("shrunk") == "1"


SPEC = dict(
    id="C07", level="proof",
    lean_targets=["SwayVerif.Props.C07"], audit="SwayVerif/Audit/C07.lean",
    theorems=["certified_is_pass", "seqjump_preserves", "redundant_moves_preserve", "redundant_moves_preserve_wf", "redundant_ops_preserve",
              "asm_dce_preserves", "asm_simplify_cfg_preserves", "C07_checkers_sound", "optimize_round_preserves",
              "C07_partial", "C07_flags_guard_insufficient"],
    steps=[dict(bin="sv_c07", area="c07", n_quick=120, n_thorough=1500, corpus="corpus/c07.txt",
                dist_keys=("pass", "src", "size", "valid", "pre", "changed", "removed", "res", "lvl", "shrunk",
                           "profile", "state", "panic", "logs", "build", "exec", "stores"),
                nontrivial=_nontrivial, timeout=3000)],
    rule="(1) kernel, level proof: op lists = corpus + random op lists (1-7 blocks, jumps incl. jumps to the next label, "
         "unreachable tails, dead definitions, dead MOVEs, MOVE r r, NOOP, MCP/MCPI with zero and non-zero length, "
         "calls with argument/return registers, flag reads adjacent and non-adjacent to the setting op) pushed through "
         "each REAL pass (dce, simplify_cfg, remove_sequential_jumps, remove_redundant_moves, remove_redundant_ops) by "
         "the hook asmopt::run_pass + before/after pairs of the same passes harvested inside the real compilations of "
         "the packages below (SWAY_VERIF_ASMOPT_DUMP). agree = model pass output equals the real output op for op "
         "(kind, defs, uses, def_const, side effect, successors); prop = the PROVED checker of the pass "
         "(validDeleteAuto / validUnreach / validSeqJumpAuto / validMoves, sound by C07_checkers_sound) accepts the "
         "REAL before/after pair; for synthetic lists only when flag registers are read right after the op setting "
         "them and labels are unique (what compiled code satisfies; outside of it the passes are not "
         "behaviour preserving: C07_flags_guard_insufficient). `round` lines: whole optimize at both levels, prop = "
         "Opt1 never returns a longer list. "
         "(1b) kernel, per-list validation of the two UNMODELLED passes: random address-arithmetic op lists (bases: "
         "known constant, $sp/$hp-derived, unknown = load / call result / label entry; chains of ADD/ADDI/SUB(I)/MULI/MOVE "
         "in place and not in place, offsets 0,1,7,8,16,24,4088; LW/SW/LB/SB with word offsets up to 4095) go through the "
         "REAL const_indexing_aggregates_function, constant_propagate and optimize(Opt0); the driver EXECUTES the before and "
         "after lists on a small interpreter of that op subset (from the ops' Display text); prop = same logged values, "
         "trap and final memory. "
         "(2) whole programs, level translation_validation (covers ALL passes incl. the unmodelled constant_propagate "
         "and const_indexing_aggregates): std in-language test packages (corpus ones + a seeded sample; all 35 in the "
         "thorough tier), corpus/c07_extra.sw, c07_ptrwalk.sw, generated packages of asm blocks that walk an array by "
         "bumping a pointer in place (by 8k, addi/add/subi) mixed with compiler-generated struct/tuple/array accesses, "
         "and generated packages of random well-typed programs are built in child "
         "processes with and without SWAY_VERIF_NO_ASM_OPT=1 in the debug and release profiles; every #[test] runs on "
         "the real FuelVM; prop = equal (state, panic reason, logs) per test (gas not compared). "
         "non-trivial = a pass line where the real pass changed the list / a prog line of a package that built",
    trusted_base=["Model/AsmOpt.lean: the five passes and the round loop transliterated over abstract ops; the abstract "
                  "machine (parametric op meaning, labels resolved like label_to_index); Respects = the assumptions on "
                  "op meanings (reads uses, writes defs+def_const, pure ops neither stop nor store, NOOP/MOVE a a/"
                  "MCP 0/MCPI 0 change at most $of/$err, MOVE = NOOP apart from its destination; calls may read and "
                  "write the constant registers other than $of/$err undeclared)",
                  "hook sway_core::verif_hooks::asmopt (+ regalloc dumper): def/use/def_const/has_side_effect/successor "
                  "tables are the compiler's own; text form refines MCP (length is $zero) and MCPI (immediate)",
                  "NOT modelled, NOT proved: constant_propagate, const_indexing_aggregates_function "
                  "(parameters of C07_partial; covered by the whole-program runs only)",
                  "has_side_effect/def tables of asm_lang are taken as given (e.g. DIV/LW are 'pure': a dead trapping "
                  "op may be deleted; the theorems assume pure ops do not stop the machine — the whole-program runs "
                  "found std relying on that: raw_ptr::read::<()> loaded from $hp, fixed in b3f3289)",
                  "whole-program part: forc-test/fuel-vm in-process run of #[test]s (svharness::swayrun)"],
    assumptions=["flag registers $of/$err are read only by the op right after the one that sets them (true of "
                 "compiler-generated code; violated only by hand-written asm, see known finding C07-flags)",
                 "JumpToAddr leaves the op list (the passes give up on it)"],
)


def _replay_finding(ctx):
    """Known finding C07-flags: replayed on the real compiler + VM on every run; never an alarm by itself."""
    if not os.path.exists(os.path.join(svlib.HARNESS, "target/debug/sv_c07")):
        return
    cases = os.path.join(ctx.work, "known.%s.cases" % ctx.seed)
    rc, out = svlib.run_harness(ctx, "sv_c07", ["--out", cases, "--n", "0", "--corpus",
                                                os.path.join(svlib.VERIF, "corpus/c07_known.txt"),
                                                "--only-progs", "--no-gen"],
                                timeout=1500, env_extra={"VERIF_C07_PKGS": "0", "VERIF_TIER": "quick"})
    if rc != 0 or not os.path.exists(cases):
        ctx.notes.append("known finding C07-flags: replay could not run")
        return
    diff, same, control_bad = 0, 0, []
    for line in open(cases, encoding="utf8"):
        case, _, impl = line.strip().partition(" ;; ")
        t = case.split()
        if len(t) < 4 or t[0] != "prog":
            continue
        kv = svlib.parse_answer(impl)
        eq = kv.get("opt") == kv.get("noopt")
        ctx.evaluations += 1
        if t[2] == "flags_noop_then_log_then_err":
            diff += 0 if eq else 1
            same += 1 if eq else 0
        elif not eq:
            control_bad.append(line.strip())
    for l in control_bad:
        case, _, impl = l.partition(" ;; ")
        ctx.failing.append({"step": "known-replay", "line_no": 0, "case": case, "impl": impl, "answer": "prop=0 control test differs"})
    if diff:
        print("KNOWN-FINDING: property=C07 remove_redundant_ops deletes a `noop` whose clearing of $err is read two ops "
              "later (guard looks at the next op only): corpus/c07_flags.sw flags_noop_then_log_then_err logs 1 with the "
              "optimiser, 0 without (%d profile(s))" % diff, flush=True)
        ctx.known_hits.append("C07-flags")
    ctx.extra["known_finding_C07_flags"] = "reproduced in %d profile(s), not reproduced in %d" % (diff, same)


SPEC["custom"] = [_replay_finding]


def run(tier, seed):
    h = os.environ.get("VERIF_HARNESS")
    if h:
        svlib.HARNESS = h
    return svlib.run_spec(SPEC, tier, seed)


MANIFEST = dict(
    claimed=True,
    technique="Lean 4 theorems over an abstract register machine parametric in the op meanings (stuttering simulation; "
              "liveness- / reachability-justified deletion) for five of the seven abstract-instruction passes and the "
              "round loop + proved checkers run on the real passes' before/after pairs + op-for-op differential "
              "correspondence of every modelled pass + whole-program differential runs on the FuelVM with the optimiser "
              "switched off by a hook",
    text="proof (partial): for ALL op lists and all op semantics respecting def/use — seqjump_preserves, "
         "redundant_moves_preserve(_wf: the Rust loop itself, no certificate), redundant_ops_preserve, asm_dce_preserves, asm_simplify_cfg_preserves (each for the "
         "pass together with the decidable justification of its concrete rewrite), C07_checkers_sound, "
         "optimize_round_preserves (pass sequence + fixpoint loop, never longer), C07_partial (optimize at both levels "
         "given the two unmodelled passes preserve), C07_flags_guard_insufficient (the code's own guards do not suffice "
         "when $of/$err is read later than by the next op; reproduced on the real VM). "
         "translation_validation: every test of std in-language packages + generated programs gives the same "
         "state/logs/panic with and without the asm optimiser, both profiles.",
    note="constant_propagate and const_indexing_aggregates_function are not modelled (VM-validated only); the "
         "certificates of the modelled passes are checked per op list, their existence for all compiler-generated lists "
         "is not proved; known finding C07-flags (hand-written asm only).",
)
