import svlib

SPEC = dict(
    id="C14", level="proof",
    lean_targets=["SwayVerif.Props.C14"], audit="SwayVerif/Audit/C14.lean",
    theorems=[],  # filled below
    steps=[dict(bin="sv_c14", area="c14", n_quick=1000, n_thorough=12000, corpus="corpus/c14.txt",
                dist_keys=("why", "fragment", "witness", "bf", "arms", "ran", "orarm", "orlastdead", "enummix"), timeout=3000,
                nontrivial=lambda case, impl, kv: kv.get("arms", "1") != "1"),
           # systematic block: every 2-/3-arm matrix with an or-pattern arm (2-3 alternatives, every order) over
           # bool, a 2-variant enum, u8 {3,7,_}, and the or-pattern nested in a tuple component
           dict(bin="sv_c14", label="sv_c14_sys", area="c14", n_quick=900, n_thorough=2700, args=["--systematic"],
                dist_keys=("why", "orlastdead", "bf"), timeout=3000,
                nontrivial=lambda case, impl, kv: True)],
    rule="random pattern matrices (1-6 arms, depth <= 3: wildcards, bindings, bool, u8 literals with and without "
         "suffix incl. 0/255, dense or-blocks covering 0..=255 with/without a hole, enum variants, tuples, structs "
         "with `..`/reordered fields, or-patterns) over generated enum/struct/tuple declarations with <= 70000 "
         "values; the REAL compiler type-checks them (forc_pkg::check: MatchExpressionNonExhaustive + witness text, "
         "Internal, MatchExpressionUnreachableArm by span) and the accepted ones are run on the FuelVM on every value "
         "(or <= 300 chosen values incl. all literals and neighbours). agree = Lean model of the analysis and of the "
         "matcher's condition gives the same verdict kind, warnings and run-time arms; prop = brute-force oracle over "
         "ALL values. non-trivial = more than one arm",
    trusted_base=["Model/Usefulness.lean: is_useful/is_useful_wildcard/_or/_constructed, S(c,P), D(P), Σ, "
                  "is_complete_signature, create_pattern_not_present, range condensing, witness stack, warning logic of "
                  "type_check_match_expression, the Option<condition> folding of the matcher — transliterated by hand",
                  "harness: generator, span->arm attribution, witness TEXT parser (by declaration names), 13-line stub "
                  "std::ops (PartialEq for bool/u8/u64 via __eq) instead of sway-lib-std",
                  "not modelled: serialize_multi_patterns (or-expansion inside witnesses), Display; variable-binding "
                  "or-patterns (tuple/index variable path of the desugaring) are not generated"],
    assumptions=["scrutinee types: bool, u8, enums, tuples, structs of these (no u16..u256, b256, strings, generics, refs)",
                 "patterns inside or-patterns bind no variables",
                 "theorems hold on the fragment `Pat.hasTy` (suffixed u8 literals, struct patterns listing all fields in "
                 "declaration order); outside it the compiler deviates (known findings)"],
)

SPEC["theorems"] = ["useful_total", "useful_sound", "useful_complete", "C14_exhaustive_exact",
                    "C14_reachable_exact", "C14_warnings_exact_partial", "first_match_runs",
                    # decide-d witnesses of the compiler's deviations outside the fragment
                    "struct_rest_positional_wrong", "literal_width_u64_wrong", "literal_suffix_mix_ice",
                    "witness_join_unsound", "interior_catchall_not_warned", "or_catchall_alt_runtime"]

def run(tier, seed):
    return svlib.run_spec(SPEC, tier, seed)

MANIFEST = dict(
    claimed=True,
    technique="Lean 4 theorem: soundness AND completeness of the implemented Maranget usefulness algorithm (incl. or-patterns, u8 range "
              "condensing) on an explicit typed fragment + differential correspondence with the real compiler's verdicts and run-time arm selection",
    text="proof: useful_total / useful_sound / useful_complete, C14_exhaustive_exact, C14_reachable_exact, first_match_runs hold for ALL "
         "pattern matrices of the fragment Pat.hasTy (suffixed u8 literals, struct patterns listing every field in order, or-patterns at any "
         "depth) of the model of the code AFTER fix: 50f6a54; outside the fragment the code deviates and each deviation has a decide-proved "
         "witness and a known finding. Tied to the compiler on 1000 (quick) / 12000 (thorough) random matrices: verdict kind, reported "
         "witness, unreachable warnings by span, and the arm taken on the FuelVM for every value; property predicate = brute-force oracle "
         "over all values.",
    note="partial: witness-level soundness is false of the code (witness_join_unsound), warnings exact only without interior catch-all arms "
         "(C14_warnings_exact_partial). Trusted: hand transliteration of the analysis files, harness generator and witness-text parser. "
         "Upstream defects: 1 fix: (Σ construction: false rejection, accepted non-exhaustive match, 2 ICEs), 8 known findings incl. a "
         "run-time miscompile of `true | _`.",
)
