import svlib

SPEC = dict(
    id="C25", level="proof",
    lean_targets=["SwayVerif.Props.C25"], audit="SwayVerif/Audit/C25.lean",
    theorems=["C25_visible_partial", "C25_visible_partial_observed", "C25_stale_cleared", "C25_stale_cleared_run",
              "C25_visible_false_before_fix", "C25_visible_false", "C25_visible_false_two_lockers",
              "C25_visible_unrestricted_false"],
    steps=[dict(bin="sv_c25", area="c25", n_quick=250, n_thorough=3000, corpus="corpus/c25.txt",
                dist_keys=("iso", "np", "viol", "held", "crashes", "len", "badev"),
                nontrivial=lambda case, impl, kv: kv.get("held") == "1",
                timeout=2400)],
    rule="schedules over ONE flag file for 2-3 real child processes running the real PidFileLocking "
         "(lock, release, is_locked, get_locker_pid, cleanup_stale_files, is_file_dirty, lsp().lock()) stepped "
         "one file-system operation at a time through hook H4, with SIGKILL at arbitrary points and injected "
         "initial contents (empty/legacy, garbage, whitespace, '+', overflow, invalid UTF-8, stale pid). "
         "corpus = the model's counterexample schedules + parse corner cases + life cycles; random schedules in "
         "three modes (sequential / free interleaving with isolated publish / free). Every schedule is one case: "
         "the Lean model replays it (agree = same file bytes, directory flag, step point or return value after "
         "every token, same iso tag, same bad-event tags); prop = the flag of every live holder is on disk after "
         "every step and every completed observer call reports it, evaluated on the real observations. "
         "non-trivial = some child held the flag during the schedule",
    trusted_base=["Model/FsLock.lean: one step = one file-system operation of fs_locking.rs (open, read_to_string, "
                  "is_pid_active, remove_file, create_dir_all, rename; temp file of lock() is process-private and "
                  "not in the store); inode handles modelled; str::trim/parse::<usize> on ASCII",
                  "hook H4 (verif_step! points) sits exactly between those operations; harness kills with SIGKILL "
                  "and reaps, is_pid_active is the real `ps` call plus the SWAY_VERIF_DEAD_PIDS override",
                  "POSIX semantics assumed for the real file system: rename atomic, unlink by path, open handles "
                  "survive unlink, single directory"],
    assumptions=["C25_visible holds only for schedules with isolated publishing steps (no other live process is "
                 "inside a PidFileLocking operation when a lock's rename executes); outside them it is false "
                 "(C25_visible_false, C25_visible_false_two_lockers: known findings)",
                 "pids are < 2^64 and are not reused while a flag naming them exists",
                 "flag-file contents not written by lock() are ASCII or invalid UTF-8 (non-ASCII valid UTF-8 "
                 "whitespace is not modelled)"],
)

def run(tier, seed):
    return svlib.run_spec(SPEC, tier, seed)

MANIFEST = dict(
    claimed=True,
    technique="Lean 4 invariant proofs by induction over the step relation of a multi-process file-system model (any number of "
              "processes, any interleaving, crashes) + step-by-step correspondence with real child processes through hook H4",
    text="proof (partial): C25_visible_partial / C25_visible_partial_observed hold for every reachable state of the model with "
         "unboundedly many processes when lock() publishes in isolation; C25_stale_cleared (all schedules) and "
         "C25_stale_cleared_run; the full statement is FALSE of the code (C25_visible_false, C25_visible_false_two_lockers, "
         "C25_visible_unrestricted_false proved by explicit schedules and replayed on real processes) — those two races are "
         "known findings; the truncate window was repaired by a fix: commit. Model tied to the real PidFileLocking by "
         "driving 2-3 real processes one file-system operation at a time.",
    note="trusted: Lean kernel + 3 standard axioms, POSIX rename/unlink semantics, hook H4 placement, harness. Partial: the "
         "read-decide-unlink TOCTOU and two concurrent lock() calls lose a live flag (known_findings.json: "
         "C25-stale-unlink-toctou, C25-concurrent-lockers).",
)
