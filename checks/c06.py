import os
import sys

import svlib

sys.path.insert(0, os.path.join(svlib.VERIF, "gen"))
import fold_table  # noqa: E402

_DIST = ("op", "ty", "ct", "rt", "src", "notraw_differs")


def _nontrivial(case, impl, kv):
    # a case where the compile-time evaluator actually produced a value (the property's hypothesis), or
    # where the run-time side does not produce one (the "never substitutes" half)
    return kv.get("ct") in ("fold", "arg") or kv.get("rt") in ("panic", "revert")


SPEC = dict(
    id="C06", level="proof",
    lean_targets=["SwayVerif.Props.C06"], audit="SwayVerif/Audit/C06.lean",
    theorems=["C06_binop", "C06_cmp", "C06_unop", "C06_unop_ir_partial", "C06_not_narrow_ir_witness",
              "C06_no_subst_on_revert", "C06_narrow_arith_std", "C06_useless_binop", "u256_shl_bounded",
              "C06_ct_never_crashes", "C06_prop_of_model"],
    gen=[fold_table.gen],
    steps=[
        # IR stream: real `const-folding` pass on a one-instruction function (IR text parser and builder API)
        # vs the emitted instruction on the real FuelVM
        dict(bin="sv_c06", area="c06", label="ir", n_quick=40000, n_thorough=1500000, corpus="corpus/c06.txt",
             dist_keys=_DIST, nontrivial=_nontrivial, timeout=1500),
        # Sway stream: `const X: T = __op(A, B)` through the real compiler (const_eval.rs), value read back by
        # running the script; ~50 ms per case
        dict(bin="sv_c06", area="c06", label="sway", n_quick=3000, n_thorough=12000, corpus="corpus/c06.txt",
             args=["--sway"], dist_keys=_DIST, nontrivial=_nontrivial, timeout=1500),
    ],
    rule="every operator (add sub mul div mod and or xor lsh rsh not eq lt gt) x every width (u8 u16 u32 u64 u256 "
         "b256, bool for eq) with boundary-biased operands: 0, 1, 2, max, max-1, 2^k, 2^k+-1, max/2, payloads beyond a "
         "narrow declared width, operand pairs straddling the overflow / underflow / equality boundary "
         "(a+b = 2^w+-1, a*b around 2^w, b = a+-1, divisor 0), shift amounts (same family in both streams, every width incl. u256/b256) 0, 1, "
         "w-1, w, w+1, 63..65, 255..257, 2^31, 2^32-1, 2^32, 2^32+k (k<64), 2^33..2^63 (+k), 2^40, 2^63, 2^64-1; "
         "corpus/c06.txt starts with the systematic block shift op x width x those amounts x a in {1,5,max}. Each case = one real const-folding run (or one real compilation of a "
         "const declaration) + one real FuelVM execution; non-trivial = the compiler produced a value, or the VM "
         "did not; distinct by (stream, op, type, operands)",
    trusted_base=[
        "gen/fold_table.py: shape-matching extraction of the fold tables, the U256 method bodies and the "
        "op -> instruction lowering from /repo (fail closed: unknown shape => `.unknown`, theorem stops compiling)",
        "Model/RustInt.lean: Rust u64 checked/wrapping ops, BigUint ops and bits(), FuelVM ADD SUB MUL DIV MOD AND OR "
        "XOR SLL SRL NOT EQ LT GT WQOP WQML WQDV WQAM WQCM with FLAG=0, transliterated from Rust core / num-bigint "
        "0.4.6 / fuel-vm 0.66.4 and tied to the real VM by the correspondence run",
        "modelled, not extracted: misc_demotion.rs passes a zero as WQAM's second operand; the immediates of "
        "VirtualImmediate06::{wide_op,wide_cmp,wide_mul,wide_div} (copied into the harness); `Constant` handle "
        "equality = same type and value (Constant::unique); `impl Not/Add/Subtract/Multiply for u8/u16/u32` of "
        "sway-lib-std/src/ops.sw (rtNotStd, rtNarrowArith)",
        "not covered by theorems: aggregates, casts and const fn calls are interpreted by const_eval.rs around the "
        "intrinsics (tied only through the Sway stream's straight-line const declarations); conditional_constprop.rs "
        "substitutes a value already compared equal and evaluates nothing",
    ],
    assumptions=[
        "FuelVM FLAG register is 0 (no F_WRAPPING / F_UNSAFEMATH) around the instructions, as the compiler emits them",
        "u8/u16/u32 values respect their width when std's operators are used (ops.sw range-checks / masks). The raw "
        "intrinsics on narrow types are covered at IR-instruction level on the 64-bit payload; at that level `not` on "
        "u8/u16/u32 agrees only modulo the width mask (C06_not_narrow_ir_witness)",
        "a crash/abort of the compile-time evaluator counts as a violation (it neither yields a value nor declines)",
    ],
)


def run(tier, seed):
    return svlib.run_spec(SPEC, tier, seed)

MANIFEST = dict(
    claimed=True,
    technique="Lean 4 theorems over operand-complete models of Rust integer/BigUint ops and FuelVM ALU/wide-int instructions, "
              "quantified over the fold tables REGENERATED from constants.rs / const_eval.rs / u256.rs on every run "
              "(fail-closed translator) + differential correspondence (real const-folding pass vs real VM)",
    text="proof: C06_binop, C06_cmp, C06_unop, C06_no_subst_on_revert, C06_useless_binop, C06_narrow_arith_std, "
         "u256_shl_bounded, C06_ct_never_crashes hold for EVERY arm of the generated tables and ALL in-range operands "
         "(u64 payloads, 256-bit values): a folded value equals what the emitted VM instruction yields, and nothing is "
         "folded when the run-time op would panic. An edit to an arm changes the generated table and breaks table_checked; "
         "the harness then finds the failing operand by running the real pass against the real interpreter (40k IR + 1.5k "
         "Sway const cases quick).",
    note="partial for aggregates/casts/const-fn calls (reached only through the Sway stream, no theorem) and for raw u8 "
         "intrinsics at IR level (C06_unop_ir_partial with a decide witness; std's ops mask/range-check). Trusted: "
         "gen/fold_table.py, the hand models of u64/BigUint ops and fuel-vm 0.66.4 ALU/WQ* semantics (tied by running the "
         "real interpreter), rustc. Upstream defects repaired: db9ea37, 53b7855, 209dff0.",
)
