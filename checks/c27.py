import svlib

THEOREMS = ["u128_add_spec", "u128_sub_spec", "u128_mul_spec", "u128_div_spec_partial", "sqrt_floor",
            "u64_sqrt_floor", "pow_spec", "u64_pow_spec", "narrow_pow_spec", "u64_log_spec", "log2_spec", "log_spec",
            "vec_refines_list",
            "vec_history", "vec_new_inv"]

SPEC = dict(
    id="C27", level="proof",
    lean_targets=["SwayVerif.Props.C27"], audit="SwayVerif/Audit/C27.lean",
    theorems=THEOREMS,
    steps=[dict(bin="sv_c27", area="c27", n_quick=1000, n_thorough=6000, corpus="corpus/c27.txt",
                args=["--per-pkg", "340", "--jobs", "3"], timeout=2400,
                dist_keys=("op", "mode", "spec", "out", "kind", "size"),
                nontrivial=lambda case, impl, kv: kv.get("spec", "value") != "unspecified")],
    rule="generated forc unit tests run on the real FuelVM against /repo/sway-lib-std: (a) one numeric std operation "
         "per test (add/sub/mul/div/mod, wrapping_*, pow, sqrt, log, log2, shifts, comparisons, overflowing_*, "
         "try_from/try_as_*) on u8..u64, U128, u256 with boundary-biased operands (0, 1, max, max-1, 2^k, 2^k+-1, "
         "perfect squares +-1, base^k +-1, exponents at the overflow edge; for U128/u256 binary ops 40% of the cases come from a "
         "limb-pattern family: every 64-bit limb from {0,1,2,2^63-1,2^63,2^63+1,MAX-1,MAX,random} and the partner limb chosen so the "
         "per-limb sum/difference/product is far from, exactly at (MAX / 2^64) or beyond the limb boundary, independently per limb "
         "position (carry in low only / high only / both / carry chain); a systematic 142-line corpus block of such pairs runs first), operands read through #[inline(never)]+asm so "
         "nothing is constant-folded, under the four combinations of the F_WRAPPING/F_UNSAFEMATH flags (3/4 default); "
         "(b) random operation sequences (<= 21 ops, indices biased to len-1/len/len+1) on Vec<u64>, Bytes, String, "
         "every observable logged. agree = transcription (StdNum/StdVec over M-Word) equals the VM result incl. revert "
         "code; prop = reference model (Nat arithmetic with explicit bounds / List) equals the VM result and the VM "
         "reverts exactly when documented. non-trivial = the documentation specifies the outcome; distinct by case",
    trusted_base=["Model/Word.lean: FuelVM ALU (add/sub/mul/div/mod/exp/mroo/mlog/shifts, wq* wide ops, $of/$err, "
                  "F_WRAPPING/F_UNSAFEMATH) transcribed from fuel-vm 0.66 alu.rs / wideint.rs",
                  "Model/StdNum.lean, Model/StdVec.lean: hand transcriptions of u128.sw, math.sw, ops.sw (narrow ints, "
                  "wrapping_*), primitive_conversions, vec.sw, bytes.sw, string.sw; fidelity rests on the correspondence runs",
                  "Model/StdSpec.lean: refNum/specStep = the documented behaviour (doc comments, # Reverts sections, "
                  "in-language should_revert tests for U128 sqrt/log/log2 of zero)",
                  "the Sway compiler lowers u64/u256 operators to single ALU / wide-ALU instructions (assumed by the "
                  "transcription, exercised by every correspondence case)",
                  "proved for ALL inputs: U128 add/sub/mul, u256 Newton sqrt incl. termination and no-overflow, u64 sqrt, "
                  "u256/u64/narrow pow, u64 log, u256 log2 and log, every Vec/Bytes/String operation and all operation histories; "
                  "NOT proved (tied by correspondence only): U128 long-division loop, U128 pow/sqrt/log/log2, shifts of U128"],
    assumptions=["len and cap stay below 2^63 (the VM has 64 MiB of memory) — their u64 arithmetic is not modelled as overflowing",
                 "a Vec/Bytes value is not used through a stale copy after the original reallocated (Sway copies {ptr,cap,len})",
                 "U128 behaviour under non-default flags is only specified where std documents it (pow returns 0, "
                 "sqrt/log/log2 of zero return 0 under F_UNSAFEMATH)"],
)

def run(tier, seed):
    return svlib.run_spec(SPEC, tier, seed)

MANIFEST = dict(
    claimed=True,
    technique="Lean 4 theorems about line-by-line transcriptions of sway-lib-std numerics/collections over a FuelVM ALU "
              "model + differential correspondence: generated forc unit tests executed on the real FuelVM",
    text="proof (about transcriptions): for ALL inputs U128 add/sub/mul are exact or revert exactly on overflow/underflow; "
         "u256 Newton sqrt terminates within its fuel, never overflows and returns the floor root; u256/u64/u32/u16/u8 pow "
         "is exact or reverts (0 with panic-on-overflow disabled) exactly on overflow; u256 log2/log and u64 log return the floor logarithm or revert on the undefined inputs; every Vec/Bytes/String operation of the "
         "{buf,cap,len} machine refines the List operation, keeps len <= cap, never leaves its allocation and reverts exactly "
         "when the list operation is undefined, lifted to all histories. Transcription fidelity rests on the correspondence: "
         "each run compiles generated tests with the real compiler against /repo/sway-lib-std and compares every VM result "
         "with the transcription (agree) and with the Nat/List reference (prop).",
    note="trusted: Lean kernel + propext/Classical.choice/Quot.sound; the ALU model (from fuel-vm sources); the transcriptions; "
         "the reference refNum/specStep; harness generator. Partial: U128 division loop, U128 pow/sqrt/log/log2 and shifts are "
         "transcribed and tied by correspondence only. The unchanged std violated the property twice (log over-estimate via "
         "stale $of; U128 checked_mul cross-term wrap) — both repaired by fix: commits, listed in known_findings.json as fixed.",
)
