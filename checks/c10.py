import svlib
from gen import codec_trivial, mem_repr

SPEC = dict(
    id="C10", level="proof",
    lean_targets=["SwayVerif.Props.C10"], audit="SwayVerif/Audit/C10.lean",
    theorems=["tables_wellformed", "C10_encode_image_partial", "C10_encode_partial", "C10_decode_partial",
              "C10_invalid_reverts", "C10_fastpath_encode_partial", "C10_decoder_validates", "C10_prop_of_model",
              "C10_trivialEnum_counterexample", "C10_trivialEnum_decode_counterexample"],
    gen=[codec_trivial.gen, mem_repr.gen],
    steps=[dict(bin="sv_c09", label="sv_c10", area="c10", n_quick=1500, n_thorough=8000, corpus="corpus/c10.txt",
                args=["--mode", "c10", "--per-pkg", "240"], timeout=3000,
                dist_keys=("kind", "class", "depth", "size", "implTrivE", "implTrivD", "implMemEq", "padded", "valid", "trivD"),
                nontrivial=lambda case, impl, kv: kv.get("implTrivE") == "1" or kv.get("kind", "").startswith("dec-bad")
                or kv.get("padded") == "1")],
    rule="FIRST, on every run, a systematic enumeration of ~420 small type shapes (leaves: sub-word / word / multi-word ints, unit, [u8;N] N in {1,3,7,8,9,12,16,33}, [bool;5], str[N]; every depth-1 aggregate kind over them: structs/tuples with 1-3 fields (each leaf first/middle/last), enums with 1-3 variants (all-equal payloads, a unit variant on either side, mixed sizes), arrays of 0-3, Vec, Option; a depth-2 layer wrapping every third shape in a 1-field struct / struct with a u8 neighbour / array of 2 / Vec / enum variant), one value + canonical decode each; THEN "
         "type trees biased to word-aligned layouts (so that about half are classified trivial) and to nearly aligned "
         "ones (one u8/bool/u16/u32/str[N]/unit spoiler, zero-sized variants, all-unit enums), 2 values per type; Sway "
         "#[test]s on the real FuelVM log is_encode_trivial::<T>(), is_decode_trivial::<T>(), the mem-id test, the raw "
         "memory image (__addr_of + __size_of bytes), log(v); abi_decode::<T> of canonical bytes and of bytes with one "
         "bool byte / one enum tag replaced by an invalid one (must revert). agree = model flags/image equal the VM's; "
         "prop = whenever the PROGRAM says trivial, memory bytes and logged bytes are the canonical encoding, invalid "
         "patterns revert, canonical bytes decode to the value. non-trivial = classified trivial, padded, or invalid-"
         "pattern line.",
    trusted_base=["Model/Ty.lean: `runtimeImage`/`sizeRT` = layout of sway-ir Type::size / field offsets / "
                  "create_tagged_union_type (tied to the VM's memory bytes on every line); `runtimeRepr`/`encodingRepr`/"
                  "`memIdEq` = get_runtime_representation / get_encoding_representation with leaf sizes and padding rules "
                  "from Generated/MemRepr.lean (tied by the logged mem-id comparison); `evalBody` over "
                  "Generated/CodecTrivial.lean",
                  "gen/codec_trivial.py, gen/mem_repr.py (pattern matchers over source text, fail closed: unknown shape "
                  "=> `tables_wellformed` fails by decide)",
                  "harness/src/tygen.rs generator and reference encoder (positions of bool bytes / tag words)"],
    assumptions=["equal mem ids <=> equal MemoryRepresentation (DefaultHasher collisions, and a hash equal to the "
                 "constant 0 used for 'no encoding representation', are ignored)",
                 "default experimental features (new_encoding = true, str_array_no_padding = false, read from "
                 "sway-features); with str_array_no_padding = true the proofs must be re-run on the regenerated tables",
                 "padding bytes of a memory image are unconstrained (`none`), pointers of heap types likewise",
                 "tuples of arity > 26 have no codec impl (do not compile) and are classified non-trivial by the model"],
)


def run(tier, seed):
    return svlib.run_spec(SPEC, tier, seed)


MANIFEST = dict(
    claimed=True,
    technique="Lean 4 theorems over tables regenerated from codec.sw / abi_encoding.rs / function.rs / irtype.rs on every "
              "run + differential correspondence of flags, memory images and decode outcomes on the real FuelVM",
    text="proof: for ALL types and values, classified trivially encodable => memory image has no padding/pointer byte and "
         "equals the canonical encoding (C10_encode_partial); classified trivially decodable => every byte string of "
         "__size_of bytes is the image of a valid value and the canonical decoder returns it (C10_decode_partial); the "
         "decoder rejects bool bytes other than 0/1 and tags >= #variants and never returns anything but a valid value "
         "read from its canonical bytes (C10_invalid_reverts); the encoder with its fast paths (top level and Vec element "
         "buffer) equals the canonical encoder (C10_fastpath_encode_partial). `_partial` = types containing "
         "std::codec::TrivialEnum are excluded: for them the property is FALSE on the unchanged tree (negation witnesses "
         "proved by decide and replayed on the VM; known finding C10-trivialenum).",
    note="the is_*_trivial tables, the two memory descriptions and the decoder validity checks are re-extracted by "
         "pattern-matching translators; the model of the layout and of the descriptions is hand-written and tied to the "
         "real compiler/VM on every run (flags, mem-id comparison, raw memory bytes per generated type/value).",
)
