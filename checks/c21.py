import svlib

SPEC = dict(
    id="C21", level="proof",
    lean_targets=["SwayVerif.Props.C21"], audit="SwayVerif/Audit/C21.lean",
    theorems=["C21_no_panic", "C21_pinned_ok_or_err", "C21_depline_no_panic", "toGraph_no_panic", "C21_prop_of_model"],
    steps=[dict(bin="sv_c21", area="c21", n_quick=20000, n_thorough=400000, corpus="corpus/c21.txt",
                dist_keys=("kind", "cls", "variant", "pkgs", "edges"),
                nontrivial=lambda case, impl, kv: kv.get("cls") == "ok" or (kv.get("kind") == "lock" and kv.get("cls") == "err"))],
    rule="source strings: assembled from adversarial parts (urls, references, commit hashes, ids, cids, versions, "
         "namespaces, occasionally wrong separators / surrounding Unicode whitespace) + char-level mutations of valid "
         "strings; lock texts: 0-5 packages with valid / mutated sources, dependency lines in the writer's format "
         "(dep-name prefix, disambiguated keys, salts) with broken parentheses / multi-byte / unknown keys, plus "
         "byte-level mutations of whole texts (most rejected by the TOML layer). Each case: real Pinned::from_str / "
         "Lock::from_path + to_graph under catch_unwind vs the Lean model (outcome class AND value). "
         "non-trivial = the model outcome is a value, or a lock that passes TOML and fails in to_graph",
    trusted_base=["Model/Lock.lean: Pinned::from_str (path/git/ipfs/registry), parse_pkg_dep_line, Lock::to_graph "
                  "transliterated with byte-offset slices, HashMap index and graph index as explicit panic outcomes",
                  "not modelled, only exercised: toml::de::from_str + serde into Lock (TOML layer), fs::read_to_string; "
                  "external parsers gix_url / cid / semver / hex enter the model as total functions (table of their "
                  "real answers per case)"],
    assumptions=["toml::de::from_str, gix_url::Url::from_bytes, cid::Cid::from_str, semver::Version::from_str and "
                 "hex::decode_to_slice return (Ok/Err) on every input — observed, not proved: every case runs them "
                 "under catch_unwind",
                 "petgraph StableGraph::add_node / update_edge do not panic below 2^32 nodes/edges"],
)

def run(tier, seed):
    return svlib.run_spec(SPEC, tier, seed)

MANIFEST = dict(
    claimed=True,
    technique="Lean 4 theorem: byte-level model of the Forc.lock source-string / dependency-line parsers and to_graph with every Rust "
              "slice/index/unwrap an explicit panic outcome, proved panic-free for ALL strings + differential correspondence",
    text="proof: C21_no_panic (every source string, any behaviour of the external url/cid/semver parsers), C21_depline_no_panic "
         "(every dependency line), toGraph_no_panic (every list of lock records: the map index always finds its key) hold of the "
         "model of the code AFTER the fix: commit dae01da; tied to the real Pinned::from_str / Lock::from_path + to_graph by "
         "20k (quick) / 400k (thorough) random and mutated lock texts under catch_unwind (outcome class and parsed value compared).",
    note="trusted: Lean kernel + propext/Quot.sound; TOML deserialisation, gix_url, cid, semver are parameters (assumed not to "
         "panic; observed under catch_unwind); harness generator. The unchanged upstream code violated the property (panics on "
         "\"foo\", \"git+foo\", \"b (\", …) — repaired by fix: dae01da, listed as fixed in known_findings.json.",
)
