import svlib

SPEC = dict(
    id="C04", level="translation_validation",
    lean_targets=["SwayVerif.Props.C04"], audit="SwayVerif/Audit/C04.lean",
    theorems=["C04_seq", "C04_sequence", "C04_blame", "C04_terminates", "wf_dominance_sound", "C04_prop_exact", "C04_partial"],
    steps=[
        dict(bin="sv_c04", area="c04", n_quick=1200, n_thorough=15000, corpus="corpus/c04.txt",
             dist_keys=("verdict", "pass", "src", "len"), timeout=3000,
             nontrivial=lambda case, impl, kv: case.startswith("seq ") and kv.get("verdict") != "initfail"),
    ],
    rule="modules: every sway-ir/tests/**/*.ir (parsed like the test-suite) + the compiler's INITIAL IR of 12 (thorough 36) "
         "generated programs and 3 (thorough 24) seed-sampled std-only e2e programs, each for a seed-chosen (new_encoding, release, "
         "include_tests); per module random sequences of 1-8 passes drawn from ALL passes `register_known_passes` registers (19 "
         "transforms, and with probability 1/10 per slot also the analyses postorder/dominators/dominance-frontiers/escaped-symbols/"
         "module-verifier; 1/2 of the sequences start with lower-init-aggr like the compiler, 1/5 start with a prefix of the real "
         "O0/O1 pipeline); each pass runs through the real PassManager (dependencies scheduled by it), then Context::verify with "
         "verify_ssa_dominance=true; panics caught; every pass under a 30 s watchdog in a worker process, re-run alone with 300 s "
         "before `hang`. prop = no verifyfail/panic/hang/abort on a module the verifier accepted initially; a pass returning Err is "
         "classified passerr (not a violation). non-trivial = sequence executed on an initially accepted module; half of the "
         "budget goes to compiler-produced IR",
    trusted_base=["the real IR verifier (Context::verify with SSA dominance) is the property's own oracle; no model of pass bodies",
                  "Model/PassSeq.lean: PassManager::run schedule (verify / rounds / verify after each pass / stop after an unmodified "
                  "round) and the dominance kernel on abstract CFGs; not tied to the Rust by a differential run (the schedule is 30 "
                  "lines of Rust transliterated; the harness itself drives the real PassManager one pass at a time)",
                  "harness supervisor: worker process + watchdog thread; stdout of the worker discarded"],
    assumptions=["legal sequence = any sequence of registered passes: pass_manager.rs enforces only that dependencies are analyses, "
                 "which it schedules itself; no pass documents a prerequisite on another transform (lower-init-aggr first and the "
                 "demotions before asm generation are requirements of the BACKEND, not of later passes)",
                 "the analysis pass module-printer is excluded (prints the module to stdout)",
                 "wf_dominance_sound is stated for paths of at most `fuel` edges (fuel = number of blocks covers all simple paths)"],
)

def run(tier, seed):
    return svlib.run_spec(SPEC, tier, seed)

MANIFEST = dict(
    claimed=True,
    technique="per-(module, pass sequence) validation with the real IR verifier (SSA dominance on) after every real pass + Lean 4 "
              "theorems about the PassManager schedule and the dominance check",
    text="translation_validation: random sequences of all registered passes on every sway-ir test module and on compiler-produced "
         "initial IR, verifier after each pass, panics/hangs/aborts detected by a supervised worker process. Lean: if each pass "
         "preserves acceptance the PassManager::run schedule never fails verification (any number of rounds), a failure blames a "
         "concrete pass, the schedule executes at most rounds*|passes| passes, and the executable dominance check is sound on CFGs.",
    note="pass bodies and the verifier are not modelled (the verifier is the oracle). All failures found on the unchanged tree are on "
         "hand-written test IR that the verifier accepts although it is ill-formed (call with missing arguments, branch argument of "
         "the wrong type, load from a never-written local): see known_findings.json; compiler-produced IR: no failure.",
)
