import svlib

SPEC = dict(
    id="C22", level="proof",
    lean_targets=["SwayVerif.Props.C22"], audit="SwayVerif/Audit/C22.lean",
    theorems=["toposort_ok_sound", "toposort_ok_sound_trans", "order_nodup", "order_complete", "cyclic_imp_error",
              "acyclic_imp_ok", "isTopoOrder_sound", "cyclic_no_topo_order", "hasCycle_iff", "propHolds_sound",
              "C22_prop_of_model", "C22"],
    steps=[dict(bin="sv_c22", area="c22", n_quick=30000, n_thorough=600000, corpus="corpus/c22.txt",
                dist_keys=("cyc", "nodes", "edges", "self", "par", "contract"),
                nontrivial=lambda case, impl, kv: not case.rstrip().endswith(" ."))],
    rule="random package graphs of 1-40 nodes built through the real forc_pkg::Graph (StableGraph<Pinned, Edge>): "
         "DAGs from a random rank (chain, star, dense, sparse), arbitrary graphs, injected back edges / path-closing "
         "edges / self-loops / parallel edges, library and contract-dependency edges, shuffled add_edge order; "
         "real forc_pkg::compilation_order vs the Lean transliteration of petgraph toposort (agree = identical "
         "order or both error) and vs the proved checker isTopoOrder / exact cycle test (prop). "
         "non-trivial = graph with at least one edge; distinct by (n, edge list)",
    trusted_base=["Model/Toposort.lean: petgraph 0.6.5 algo::toposort + visit::Dfs::next + StableGraph neighbour "
                  "iteration order (newest edge first) transliterated; petgraph is an external crate, its code is "
                  "modelled and tied by the exact-order correspondence only",
                  "specification vocabulary in Model/Toposort.lean: DependsOn, Cyclic, IsTopoOrder, PkgGraph.wf",
                  "not modelled: the text of the cycle error (kosaraju_scc path rendering), Pinned node payloads"],
    assumptions=["the graph has no removed nodes (node indices are 0..n-1), as for a freshly built plan graph",
                 "every edge endpoint is a node (StableGraph::add_edge panics otherwise, so no Graph value violates it)"],
)

def run(tier, seed):
    return svlib.run_spec(SPEC, tier, seed)

MANIFEST = dict(
    claimed=True,
    technique="Lean 4 theorem: transliteration of petgraph 0.6.5 toposort over StableGraph neighbour order proved sound, complete, "
              "nodup, cycle-exact (incl. DFS finishing-order direction) + exact-order differential correspondence",
    text="proof: for ALL graphs (any size, parallel edges, self-loops, any insertion order) the model of compilation_order "
         "returns an order listing every package exactly once with every dependency before its dependents when the graph is "
         "acyclic (acyclic_imp_ok, toposort_ok_sound, order_nodup, order_complete) and an error when it is cyclic "
         "(cyclic_imp_error); fuel proved sufficient. Tied to the code by exact-order comparison with the real "
         "forc_pkg::compilation_order on 30k (quick) / 600k (thorough) random graphs; the proved checker isTopoOrder / "
         "hasCycle is evaluated on the real output.",
    note="trusted: Lean kernel + 3 standard axioms; petgraph is an external crate: its algorithm is modelled by hand and tied "
         "by correspondence only; error text (kosaraju path rendering) and Pinned payloads not modelled; harness generator.",
)
