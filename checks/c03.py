import os
import sys

import svlib

sys.path.insert(0, os.path.join(svlib.VERIF, "gen"))
import dedup_hash_table  # noqa: E402


def _nontrivial(case, impl, kv):
    if case.startswith("passes "):
        return kv.get("built") == "ok"
    if case.startswith("miniir "):
        return kv.get("changed") == "1"
    return True


_DIST = ("class", "shape", "built", "st", "kind", "pass", "npass", "out", "changed", "reviewed", "merged", "nblocks", "rerun")

SPEC = dict(
    id="C03", level="translation_validation",
    lean_targets=["SwayVerif.Props.C03"], audit="SwayVerif/Audit/C03.lean",
    theorems=["filter_closed_preserves", "remove_unreachable_preserves", "cbr_const_sound", "fold_cbr_preserves",
              "dce_pure_preserves", "dce_refines", "dce_refines_timeout", "dce_removes_trap", "dce_iter_refines",
              "pipeline_preserves_of_passes", "dedup_fields_complete", "dedup_arms_covered", "dedup_global_facts",
              "dedup_known_unhashed", "C03_partial"],
    gen=[dedup_hash_table.gen],
    steps=[
        # every registered pass, real backend, real VM: `--n` = number of std-dependent packages
        dict(bin="sv_c03", label="passes", area="c03", n_quick=1, n_thorough=4, corpus="corpus/c03.txt",
             dist_keys=_DIST, nontrivial=_nontrivial, timeout=5400),
        # real fn-dedup on function pairs differing in one field
        dict(bin="sv_c03", label="dedup", area="c03", n_quick=1, n_thorough=1, args=["--dedup"],
             corpus="corpus/c03_dedup.ir", dist_keys=_DIST, nontrivial=_nontrivial, timeout=600),
        # real passes on functions inside the MiniIR subset, interpreted by the Lean model
        dict(bin="sv_c03", label="miniir", area="c03", n_quick=4000, n_thorough=60000, args=["--miniir"],
             dist_keys=_DIST, nontrivial=_nontrivial, timeout=1800),
    ],
    rule="(passes) Sway packages built by the real forc-pkg/sway-core with hook H3 (SWAY_VERIF_IR_PASSES) in child "
         "processes and run on the real FuelVM through forc-test: generated no-std scalar programs (baseline = NO pass), "
         "generated no-std programs with structs/arrays (baseline = demotions+memcpyopt+dce), one generated std package "
         "or seed-chosen std in-language test package (baseline = inline + OptLevel::Opt0 FuelVM tail); per package every "
         "registered transform pass alone (before / after the baseline passes), the real Opt0 and Opt1 pipelines and "
         "seeded random pass lists; one case = (package, test, pass list): revert code / return and every log receipt "
         "compared with the baseline, and the variant must build whenever the baseline builds; a differing pair is built and run "
         "a second time and the second results are reported (key rerun counts them). non-trivial = both built. "
         "(dedup) real fn-dedup-release on hand-written function pairs that differ in exactly one instruction field. "
         "(miniir) random functions inside the MiniIR subset: real parser, real pass list of 1-3 passes out of "
         "simplify-cfg, dce, const-folding, ccp, cse, mem2reg, sroa, memcpyopt, fn-dedup-release; before/after exported "
         "and interpreted by Model/MiniIR.lean on 5 argument vectors. non-trivial = the pass changed the function",
    trusted_base=["Model/MiniIR.lean: semantics of the MiniIR fragment (u64/bool, binop/cmp/br/cbr/ret, FuelVM traps); "
                  "the modelled passes removeUnreachable / foldCbr / dce are hand-written; tie to the real passes is "
                  "structural only where stated (agree) and semantic through the interpreter (prop)",
                  "gen/dedup_hash_table.py: pattern-matching translator over instruction.rs, asm.rs, fn_dedup.rs (fails "
                  "closed); `InstOp::get_operands` returning every Value field is read, not generated",
                  "hook H3 in sway_core::compile_ast_to_ir_to_asm (feature fuellabs_sway_verif): env-selected pass list; "
                  "`lower-init-aggr` always first, Opt0 FuelVM tail appended unless an explicit `|tail` is given",
                  "forc-test reports a VM panic as Revert(0) and keeps only Log/LogData receipts: the panic reason is not "
                  "observable, a VM panic and `revert(0)` after the same logs are indistinguishable",
                  "NO PROOF CONTENT for: mem2reg, inline, fn-dedup merging, simplify-cfg block merging/unlinking, "
                  "globals-dce, DCE of stores, const-folding rules (C06), ccp, cse, sroa, memcpyopt, memcpyprop_reverse, "
                  "const/arg/ret/misc demotion, lower-init-aggr, arg_pointee_mutability_tagger — validated per module only"],
    assumptions=["the baseline of a package class is the shortest pass list the backend accepts for that class "
                 "(asm generation refuses aggregate loads/stores that only demotion+memcpyopt+dce remove, and std "
                 "programs without inlining, #4899)",
                 "generated programs keep arithmetic that can trap LIVE (result logged or returned): elimination of an "
                 "UNUSED trapping add/sub/mul/div/mod removes the VM panic (dce_removes_trap; replayed by corpus package "
                 "trap:1 as a known deviation)",
                 "fn-dedup compares 64-bit Fx hashes only (no structural comparison): absence of hash collisions is assumed",
                 "dedup: Log.log_data, ContractCall.return_type, AsmInstruction.metadata are not hashed "
                 "(dedup_known_unhashed); for compiler-generated IR they are functions of hashed parts"],
)


def run(tier, seed):
    return svlib.run_spec(SPEC, tier, seed)


MANIFEST = dict(
    claimed=True,
    technique="per-module translation validation of every registered IR pass on the real backend + FuelVM through hook "
              "SWAY_VERIF_IR_PASSES, Lean 4 theorems for three modelled transformations over MiniIR, generated "
              "fn-dedup hash-completeness table, Lean-interpreted before/after validation of real passes on MiniIR",
    text="translation_validation: each registered pass alone, the real pipelines and random pass lists are inserted "
         "through the hook and the compiled tests' outcomes (revert code, logs) compared with the baseline on the real VM; "
         "real passes on MiniIR-subset functions are validated by interpreting before/after in Lean. Proved for ALL MiniIR "
         "functions: unreachable-block removal and constant-cbr folding preserve run exactly, DCE preserves every normal "
         "return (exact when only non-trapping instructions die), pipelines compose; the fn-dedup hash consumes every "
         "declared non-operand field (table regenerated from source).",
    note="C03_partial: mem2reg, inline, CSE, SROA, memcpyopt, demotions, CCP, globals-dce, arg-mutability tagging, block "
         "merging are NOT modelled (validated per module only). Findings on the unchanged tree: see known_findings.json.",
)
