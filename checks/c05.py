import svlib

SPEC = dict(
    id="C05", level="translation_validation",
    lean_targets=["SwayVerif.Props.C05"], audit="SwayVerif/Audit/C05.lean",
    theorems=["str_escape_roundtrip", "ty_roundtrip", "const_roundtrip", "const_roundtrip_top",
              "C05_prop_of_model", "not_printable_witness_empty_array", "not_printable_witness_raw_slice",
              "not_printable_witness_raw_slice32", "C05_partial"],
    steps=[
        dict(bin="sv_c05", label="kernel", area="c05", args=["--mode", "kernel"], n_quick=20000, n_thorough=150000,
             dist_keys=("printable", "pos", "res", "tyok", "pa"),
             nontrivial=lambda case, impl, kv: kv.get("printable") == "1" or kv.get("tyok") == "1" or case.startswith("str ")),
        dict(bin="sv_c05", label="modules", area="c05", args=["--mode", "modules"], n_quick=2500, n_thorough=30000,
             corpus="corpus/c05.txt", dist_keys=("why", "kind", "bc", "stopped"), timeout=2400,
             nontrivial=lambda case, impl, kv: case.startswith("module ") and "reparse=ok" in impl),
    ],
    rule="kernel: random constants / types / byte strings (nesting depth <= 3; biased to what IR-gen emits, plus empty "
         "arrays, references, typed and raw slices, u16/u32, undef, 2^64-1 lengths) built through the sway-ir API, printed by "
         "the real printer, re-parsed by the real parser in initialiser (`as_constant`) and operand (`as_value`) position; "
         "agree = real printed literal byte-identical to `printConst` AND real parse result identical to the model's; prop = "
         "printable constants come back unchanged. modules: every sway-ir/tests/**/*.ir (quick: a third of them through the O1 "
         "pipeline), 12 generated Sway program templates and a seed-chosen sample of std-only e2e programs, each compiled for a "
         "seed-chosen (new_encoding, release, include_tests) and run through the REAL pass list ONE PASS AT A TIME; after every "
         "modifying pass: t1=print(m), m2=parse(t1), verify(m2) with SSA dominance, print(m2) vs t1 (literally = rawsame, and "
         "modulo per-function first-occurrence renaming of the arena-derived value names = fixpoint); at the final stage and at a "
         "seed-chosen subset of stages m2 is pushed through the REST of the pipeline and the real backend and its bytecode is "
         "compared with m's; differing script bytecode is run on the FuelVM and state+receipts are compared. "
         "non-trivial = printable kernel case / module that re-parsed",
    trusted_base=["Model/IrText.lean: hand transliteration of as_lit_string, Type::as_string and the peg rules ast_ty, "
                  "constant_value, string_const, str_char, hex_digit, array_const, struct_const, field_or_element_const, decimal, "
                  "`_`, plus as_constant/as_value; tied to the real code on every run by the kernel step",
                  "whole-module part: no model — the real printer/parser/verifier/backend/VM are the oracle; the harness's "
                  "name canonicalisation (v<slot>v<version> -> first-occurrence index per function) and its transliteration of "
                  "the pass list of compile_ast_to_ir_to_asm (ircorpus::pipeline)",
                  "identical bytecode is taken as identical behaviour; differing bytecode of contracts/predicates is not executed"],
    assumptions=["kernel domain `printable`: no `str` slice type and no u16/u32 (IR-gen maps them to slice/u64; StringSlice has no "
                 "public constructor), no reference / typed-slice constants, no empty array constants, array elements all of the "
                 "first element's type; raw untyped slice constants ARE emitted by IR-gen and do not round-trip (known finding)",
                 "one compiler front end (Engines) per (new_encoding, include_tests): the query-engine cache ignores experimental flags",
                 "IR of programs that do not compile (or whose pipeline stops with a pass error) is not a C05 input"],
)

def run(tier, seed):
    return svlib.run_spec(SPEC, tier, seed)

MANIFEST = dict(
    claimed=True,
    technique="Lean 4 theorems for the constant/type/string-literal kernels of the IR text grammar (print then parse = identity on an "
              "explicit decidable domain, for all inputs) + per-module translation validation of the real printer/parser/verifier/"
              "backend at every pipeline stage",
    text="translation_validation: every IR module of the corpus (sway-ir/tests, generated programs, sampled e2e programs) is printed, "
         "re-parsed, re-verified (SSA dominance on), re-printed and - for a sampled subset of stages - compiled through the rest of "
         "the real pipeline and backend, comparing bytecode (VM receipts when bytecode differs). The kernels (string escapes, hex and "
         "decimal numerals, type syntax, typed aggregates, both parser conversions) are proved to round-trip for ALL inputs in "
         "Lean and tied to the real code by a byte-exact differential run.",
    note="the whole-module statement is NOT proved (no model of instructions/metadata/asm blocks); it is decided per input. The "
         "unchanged tree violated it in 8 ways: 3 repaired by fix: commits (wide mod, library kind, entry/entry_orig), 5 listed in "
         "known_findings.json (asm ops without metadata merge and change behaviour, entry-arg mut lost, keyword-prefixed labels, raw "
         "slice constants, old-encoding configurables) plus the value-numbering finding (literal text is not stable).",
)
