import svlib

SPEC = dict(
    id="C29", level="proof",
    lean_targets=["SwayVerif.Props.C29"], audit="SwayVerif/Audit/C29.lean",
    theorems=["passed_iff_expectation", "expected_iff_expectation", "passed_eq_expected",
              "vm_error_reported_as_revert0", "C29_isolation", "C29_result_alone", "filter_sound",
              "filter_exact", "filter_contains", "C29_permutation", "C29_filter_independent",
              "C29_other_tests_irrelevant", "C29_shared_not_isolated", "C29_schedule", "C29_prop_of_model"],
    steps=[dict(bin="sv_c29", area="c29", n_quick=100, n_thorough=500, corpus="corpus/c29.txt",
                dist_keys=("cond", "st", "pass", "storage", "run", "fkind", "nsel"),
                nontrivial=lambda case, impl, kv: case.startswith("test ") or "filter=none" not in case,
                timeout=3000)],
    rule="generated Sway packages (a CONTRACT with two storage slots + ABI get/set/emit, and a LIBRARY), each with "
         "20-40 #[test] functions mixing: plain / should_revert / should_revert=\"code\" x {returns, revert(same code), "
         "revert(other code), assert(false), VM panic (div by zero, memory overflow), out of gas} x {no logs, own log "
         "values, storage read-assert-initial-write-read, contract-side logs}. Every package is built once with the real "
         "compiler and run through the real forc_test::BuiltTests::run on the real FuelVM: each test alone (exact filter), "
         "whole with 4 runners, whole with 1 runner, ~15 exact/contains filters (incl. empty phrase, prefix-of-other-names), "
         "and re-built with a permuted declaration order. `test` line per test (state, passed, logs, isolation flags), "
         "`suite` line per run (which tests ran, in which order, with which verdict). agree = Lean model (passed / filter / "
         "runAll / op interpreter) equals the real runner; prop = real verdict equals the SPEC expectation on the real state, "
         "all isolation flags 1, logs only the test's own values, exactly the selected tests ran. "
         "non-trivial = test lines and filtered suite lines",
    trusted_base=["Model/TestRun.lean: `passed`, `TestFilter::filter`, run_tests' filter-then-map shape transliterated from "
                  "forc-test/src/lib.rs; VM `Err(_) => Revert(0)` from execute.rs; THIN: a test is a pure function of its "
                  "start storage and every test is handed the setup storage (isolation holds by construction of the model)",
                  "the statement `Matches` of what 'matches its declared expectation' means",
                  "tie to the real runner (own Interpreter + cloned/redeployed MemoryStorage per test, rayon order-preserving "
                  "collect, attribute -> TestPassCondition) is ONLY the correspondence run, not a theorem",
                  "fuel-vm maps an instruction panic to a Panic receipt + ProgramState::Revert(0) (observed, not modelled further)"],
    assumptions=["deployment (`PackageTests::setup`) is deterministic",
                 "the `Err(_) => Revert(0)` arm of TestExecutor::execute (non-panic InterpreterError) cannot be triggered from "
                 "Sway source with MemoryStorage; it is modelled (`VmResult.error`) but not exercised by the correspondence",
                 "test names are ASCII identifiers; one package per run (workspaces apply the same per-package function)"],
)

def run(tier, seed):
    return svlib.run_spec(SPEC, tier, seed)

MANIFEST = dict(
    claimed=True,
    technique="Lean 4 theorems about a thin model of forc-test's runner (pass verdict, filter, per-test setup storage, arbitrary "
              "thread schedules) + correspondence against the real forc_test::BuiltTests::run on generated contract/library test suites",
    text="proof (of a THIN model): passed_iff_expectation (all conditions x all terminal states), filter_sound/filter_exact/"
         "filter_contains, C29_isolation / C29_result_alone / C29_permutation / C29_filter_independent / C29_schedule hold for all "
         "suites, filters, storages and schedules of the model; isolation holds by construction of the model (each test is run on the "
         "setup storage) and C29_shared_not_isolated shows the statement fails for a storage-threading runner. The model is tied to "
         "the real runner on every run by building generated Sway suites with the real compiler and executing them on the real FuelVM "
         "whole / serial / filtered / permuted / alone, comparing every verdict, state, log list and the set and order of tests run.",
    note="trusted: Lean kernel + propext/Classical.choice/Quot.sound; statement of `Matches`; harness generator and its isolation flags; "
         "rustc. Not modelled: FuelVM semantics, contract deployment, gas accounting, ecal state, workspace iteration, debugger entry points.",
)
