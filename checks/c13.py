import svlib

SPEC = dict(
    id="C13", level="proof",
    lean_targets=["SwayVerif.Props.C13"], audit="SwayVerif/Audit/C13.lean",
    theorems=["serialize_at_offset", "entries_disjoint", "C13_patch_frame", "C13_patch_is_recompile",
              "configurables_never_merged", "insert_lookup", "equiv_data_ignores_padding", "layout_stable_partial",
              "layout_unstable_witness"],
    steps=[
        dict(bin="sv_c13", label="sv_c13_synth", area="c13", args=["--mode", "synth"],
             n_quick=4000, n_thorough=60000, corpus="corpus/c13.txt",
             dist_keys=("outcome", "why", "merged", "long", "ptr", "size"),
             nontrivial=lambda case, impl, kv: kv.get("merged") == "1" or kv.get("outcome") == "ok"),
        dict(bin="sv_c13", label="sv_c13_e2e", area="c13", args=["--mode", "e2e"],
             n_quick=5, n_thorough=40, corpus="corpus/c13_e2e.txt", timeout=3000,
             dist_keys=("kind", "nontriv", "others", "newlen", "ran", "ncfg", "outcome"),
             nontrivial=lambda case, impl, kv: kv.get("kind") == "patch" and kv.get("nontriv") == "1"),
    ],
    rule="synth: random histories of insert_data_value/append_pointer (1-10 ops; bytes/words/arrays/slices/collections, "
         "explicit paddings, 4 configurable names, frequent equal values) through the real DataSection: ids, offsets, "
         "to_bytes and serialised bytes vs the Lean model (agree) and layoutOk/idsDistinct on the real result (prop); random "
         "op lists (fixed/LoadDataId/AddrDataId, 1/3 with data straddling the 12-bit ADDI limit) through the real "
         "to_bytecode_mut: code length, emitted immediates/pointer words, reported named offsets vs model, and every "
         "emitted address resolves to the real final offset (prop). e2e: per program 1-8 configurables of random types "
         "(u8..u64,bool,b256,u256,str[N],tuples,structs,enums,arrays, nested to depth 2; 1/3 equal defaults) in a script "
         "that logs each; compiled by forc-pkg, run on fuel-vm unpatched (base line: bytes at abi offset = encoded default, "
         "logs = defaults) and, for each configurable, with 2 random same-length encodings written at abi.configurables[j].offset "
         "(patch line: log j = new, every other log = its default). non-trivial = merged history / ok layout / patch with new != default",
    trusted_base=["Model/DataSection.lean: Entry::to_bytes/equiv, insert_data_value, append_pointer, absolute_idx_to_offset, "
                  "serialize_to_bytes, the three loops of to_bytecode_mut, addr_of/realize_load transliterated by hand",
                  "end-to-end part is translation validation per program (NOT a proof): the harness's canonical ABI encoder for "
                  "its type universe, LOGD payload of log(Cj) taken as the observation of configurable j",
                  "fuel-vm 0.66 interpreter executes the patched script faithfully"],
    assumptions=["byte arrays shorter than 2^32 bytes, fewer than 2^32 data section entries",
                 "u64 arithmetic of the layout pass is checked (debug build of the harness); a release forc wraps instead of panicking",
                 "a replacement value has the same encoded length as the compiled-in default (enum values keep a variant of the same payload size)"],
)

def run(tier, seed):
    return svlib.run_spec(SPEC, tier, seed)

MANIFEST = dict(
    claimed=True,
    technique="Lean 4 theorems about a hand-written model of DataSection and the layout part of to_bytecode_mut + differential "
              "correspondence through a feature-gated hook + per-program end-to-end patch-and-run on the real compiler and FuelVM",
    text="proof for the layout arithmetic (ALL entry lists / histories): serialize_at_offset, entries_disjoint, C13_patch_frame, "
         "C13_patch_is_recompile (patching at the reported offset = recompiling with that one entry replaced), "
         "configurables_never_merged, insert_lookup, layout_stable_partial (a successful layout pass addresses every entry at its "
         "final offset). That the running program observes the patched bytes is translation validation per generated program.",
    note="layout_stable is partial: to_bytecode_mut can panic when an appended pointer moves a configurable across the 12-bit ADDI "
         "limit (layout_unstable_witness, replayed on the real to_bytecode_mut through the hook).",
)
