import svlib

SPEC = dict(
    id="C17", level="other",
    lean_targets=["SwayVerif.Props.C17"], audit="SwayVerif/Audit/C17.lean", theorems=["C17_partial"],
    steps=[dict(bin="sv_c17", area="c17", n_quick=220, n_thorough=4000, corpus="corpus/c17",
                dist_keys=("outcome", "kind"), timeout=3400,
                nontrivial=lambda case, impl, kv: kv.get("outcome") in ("ok", "err"))],
    rule="mutation-based crash search through the full pipeline (forc_pkg::build_with_options incl. tests): seed-chosen "
         "e2e should_pass/should_fail packages and examples (no-dependency packages mostly, ~12% full-std) with 13 "
         "type-/name-/structure-level text mutators (25% double mutations) plus a list of classic crasher snippets; each "
         "mutant compiled in a child process under catch_unwind with a recording panic hook; process deaths and hangs "
         "(90 s cap) attributed by BEGIN/END markers. non-trivial = the compiler reached a verdict (ok/err); distinct by "
         "mutated source fingerprint",
    explanation="The property is decided exactly per input (a panic / 'Internal compiler error' / abort / hang on a real "
                "package IS a violation), not for all inputs: no model of the 110k-line compiler exists. Lean contributes "
                "the panic-freedom theorems of the kernels modelled for other properties (C21 lock parsing, C23 document "
                "sync, C06 u256 shift bound, C13 data-section layout), which are re-checked by those properties' checks; "
                "this check is the search that reaches unmodelled code. A crash in unmodelled code is caught only if the "
                "search reaches it.",
    trusted_base=["sv_c17 mutators and the child-process crash attribution", "panic site canonicalisation "
                  "(source file + message with digits collapsed) used to identify known findings by call site"],
    assumptions=["known findings are identified by panic site / ICE message class, so a different input reaching the "
                 "same site is the same finding and a new site is a new violation"],
)

MANIFEST = dict(
    claimed=True,
    technique="per-input exact evaluation of the property on the real pipeline (mutation crash search, child-process isolation); "
              "kernel no-panic theorems proved under C21/C23/C06/C13",
    text="other: no theorem can quantify over all packages without a model of the compiler; the check evaluates the property's "
         "exact predicate (terminates with artifacts or diagnostics; no panic, ICE, abort, hang) on every mutant it compiles "
         "and reports any violation with the mutated source as replay. Panic-freedom is proved (Lean) only for the kernels "
         "modelled under other properties.",
    note="exploration-strength for the bulk of the compiler, stated as such. Known findings (panic sites that exist on the "
         "unchanged tree) are listed in known_findings.json by site; each prints KNOWN-FINDING and does not fail the run.",
)


def run(tier, seed):
    return svlib.run_spec(SPEC, tier, seed)
