import svlib

def _nontrivial(case, impl, kv):
    if case.startswith("alloc "):
        return kv.get("rounds", "0") not in ("0", "err") or kv.get("coalesced", "0") != "0"
    return not case.startswith("vm ")

SPEC = dict(
    id="C08", level="proof",
    lean_targets=["SwayVerif.Props.C08"], audit="SwayVerif/Audit/C08.lean",
    theorems=["liveness_is_solution", "liveness_total", "liveness_sound", "interference_complete", "coalesce_keeps_interference",
              "coalesce_rename_no_clobber", "assign_proper", "assign_total_or_error", "spill_offsets_disjoint",
              "C08_no_clobber", "C08_no_clobber_pipeline", "validAlloc_sound", "validRound_sound", "C08_simulation",
              "C08_checked_simulation"],
    steps=[dict(bin="sv_c08", area="c08", n_quick=300, n_thorough=3000, corpus="corpus/c08.txt",
                dist_keys=("size", "pressure", "src", "rounds", "valid", "e2e", "ren", "co", "slots", "res", "vm", "exact", "succ", "stages"),
                nontrivial=_nontrivial, timeout=2400)],
    rule="op lists = corpus + every function of real compilations harvested through SWAY_VERIF_DUMP (a generated library "
         "of functions keeping 44..68 values live across a loop, compiled in release mode and RUN on the VM; e2e test "
         "programs) + random op lists (1-6 blocks, jumps/loops, moves incl. to/from constant registers, redefinitions, "
         "two-def ops, 0..70 values live to the end => spilling). Per op list the real liveness_analysis, "
         "create_interference_graph, coalesce_registers and the whole allocate_registers run through the hooks: "
         "agree = model successors/live_out/edges/coalesced ops+live_out+graph equal the real ones; "
         "prop = proved checker validAlloc on the REAL final assignment with liveness recomputed by the model, and validSlots "
         "on every real spill round. Plus real spill_offsets on random sets and real assign_registers on random graphs with "
         "arbitrary stacks. non-trivial = op list that was spilled or coalesced / any slots or assign case",
    trusted_base=["Model/Asm.lean: liveness_analysis, create_interference_graph (MOVE special case), coalesce_registers "
                  "(Briggs/George as coded), assign_registers, spill_offsets, Op::successors transliterated over abstract ops "
                  "(kind, def_registers, use_registers, def_const_registers); registers ranked in the compiler's own order",
                  "hook sway_core::verif_hooks::regalloc: dumper of real Ops (def/use/successor tables are the compiler's own), "
                  "constructor of real Ops from text, capture of the final virtual ops + pool inside allocate_registers",
                  "not modelled, validated per function by the proved checker instead: simplify/spill-candidate choice of "
                  "color_interference_graph; the spill-code emitter `spill` (slot choice modelled and proved; spilled code "
                  "validated by validSlots and by VM runs of generated high-pressure functions)",
                  "the semantic theorem C08_simulation assumes the op semantics reads only use_registers, writes only "
                  "def_registers+def_const_registers, and MOVE copies (SemOk); its tables are those of asm_lang (not verified here)"],
    assumptions=["callee-saved discipline of calls (PUSHA/POPA) is outside the per-function allocation problem",
                 "application of the pool to uses (Op::allocate_registers table) is checked for defs only (dc flag)"],
)

def run(tier, seed):
    import os
    # mutation tests run against a scratch copy of /repo: VERIF_HARNESS=<dir of a harness crate built against the copy>
    h = os.environ.get("VERIF_HARNESS")
    if h:
        svlib.HARNESS = h
    return svlib.run_spec(SPEC, tier, seed)

MANIFEST = dict(
    claimed=True,
    technique="Lean 4 theorems over an abstract-op model of the allocator (liveness fixpoint, interference graph, coalescing, "
              "assignment, spill slots) + proved checker validAlloc run on the real allocator's output + differential "
              "correspondence of every modelled stage against the real code",
    text="proof: for ALL op lists/graphs/stacks — liveness_is_solution, liveness_sound (path form), interference_complete, "
         "coalesce_keeps_interference (any safety test), assign_proper/assign_total_or_error (any stack), "
         "spill_offsets_disjoint, C08_no_clobber(_pipeline), validAlloc_sound, C08_simulation / C08_checked_simulation "
         "(allocated program simulates the virtual-register program for arbitrary op semantics respecting defs/uses). "
         "Tied to the code on every run: stage-by-stage equality model vs real, and the checker on the real final assignment "
         "of every harvested and generated function, incl. spilled ones; high-pressure functions also run on the VM.",
    note="the colouring heuristics and the spill-code emitter are not modelled (checked per function instead); semantic "
         "preservation of MOVE removal and spill insertion is not proved (coalesce_rename_no_clobber + validSlots + VM runs).",
)
