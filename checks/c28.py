import svlib

SPEC = dict(
    id="C28", level="proof",
    lean_targets=["SwayVerif.Props.C28"], audit="SwayVerif/Audit/C28.lean",
    theorems=["read_after_write", "write_frame", "write_frame_other_slots", "storage_vec_refines_list", "storage_vec_init",
              "storage_map_refines_fun", "storage_slice_refines_bytes", "op_footprints", "fields_noninterference", "C28_vec_history_partial"],
    steps=[dict(bin="sv_c28", area="c28", n_quick=180, n_thorough=1080, corpus="corpus/c28.txt",
                dist_keys=("reverted", "spaced", "fieldsTouched", "opkinds"), timeout=3000,
                nontrivial=lambda case, impl, kv: int(kv.get("nops", "0")) >= 5)],
    rule="one contract with 9 collection fields (StorageVec<u64> x2 — one in a namespace, StorageVec<(u64,u64,u64)> whose "
         "elements straddle slot boundaries, StorageMap<u64,u64> x2, StorageMap<u64,(u64 x5)> spanning two slots, "
         "StorageBytes x2, StorageString) built by the real compiler against the real sway-lib-std; random histories of 3-20 random calls plus, in 3 of 5 histories, one or two scripted motifs around EMPTY values (empty slice written after a non-empty one, clear then read and reuse, vector drained or cleared and reused, pops/gets on empty vectors, map entry removed twice and re-inserted, zero as a present value); "
         "calls (push/pop/get/set/len/remove/insert/swap/swap_remove/clear, insert/get/remove on a small shared key pool, "
         "write_slice/read_slice/len/clear with lengths around the 32-byte boundaries, raw slot reads at derived keys; 10% "
         "end with an out-of-bounds call that must revert), each executed in ONE forc-test transaction on the real FuelVM. "
         "agree = Lean slot machine (SHA-256 supplied as the finite table the harness computed with sha2) predicts every "
         "observation incl. raw slots and `clear` flags; prop = list / finite-map / byte-string models predict every "
         "observation of the collection API (fields not operated on stay as they are). non-trivial = histories of >= 5 calls",
    trusted_base=["Model/Storage.lean: read_quads/write_quads/clear_quads/slot_calculator, StorageVec (32-byte-slot variant) incl. "
                  "the remove/insert loops, StorageMap key derivation sha256((1u8, key, field_id)), write/read_slice_quads — "
                  "transliterated by hand; tied on every run by the agree check (incl. raw slot reads at the model's keys)",
                  "SHA-256 is a parameter: theorems assume VecSep / SlotsApart / SliceSep or agreement of stores on a field's own "
                  "slots; the driver evaluates distinctness and spacing (>= 64 slots) of all digests in play per history (`spaced`)",
                  "modelled, not verified: FuelVM SRWQ/SWWQ/SCWQ semantics (unset slot = zeros + flag), u64 overflow of lengths "
                  "(theorems assume length + 1 < 2^64), key + offset < 2^256, ABI encoding of logged values, heap allocation",
                  "`storage.<bytes>.clear()` is modelled as what it resolves to: the inherent StorageKey::clear (length slot only)"],
    assumptions=["experimental_dynamic_storage = false (the default); the dynamic-slot variants of the collections are not modelled",
                 "element/value types are u64 or tuples of u64 (8*w bytes); keys are u64; Hash of (u8,u64,b256) feeds 1+8+32 bytes",
                 "not proved: composition of the per-operation theorems into whole multi-field histories (checked per run instead)"],
)

def run(tier, seed):
    return svlib.run_spec(SPEC, tier, seed)

MANIFEST = dict(
    claimed=True,
    technique="Lean 4 refinement theorems (slot machine of the std storage collections vs List / function / byte string, loop "
              "invariants for remove/insert, frame and footprint lemmas; hash as explicit hypotheses) + differential "
              "correspondence against the real std library on the real FuelVM with random multi-field histories",
    text="proof (partial by hash hypotheses): read_after_write, write_frame, write_frame_other_slots for ALL stores/offsets/sizes; "
         "storage_vec_refines_list (len/get/push/pop/set/remove/insert/swap/swap_remove/clear incl. reverts) for all lists and "
         "element widths; storage_map_refines_fun; storage_slice_refines_bytes; op_footprints + fields_noninterference; C28_vec_history_partial (whole histories on one "
         "vector field: runSlot satisfies histProp). "
         "Whole-history composition over SEVERAL fields is checked by the correspondence run, not proved.",
    note="trusted: Lean kernel + propext/Classical.choice/Quot.sound; hand transliteration of the .sw sources (tied per run); "
         "sha2 crate; FuelVM. Hypotheses about SHA-256 (spacing/injectivity) are explicit and evaluated concretely per history.",
)
