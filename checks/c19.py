import hashlib
import os

import svlib

BIN = "sv_c18"
AREA = "c19"


def validate(ctx):
    """Harness (`sv_c18 --mode c19`) + proved validator (`svdriver_c19`). Done here instead of through
    svlib.correspond because a case carries two whole token streams: failing entries keep only `fmt <cfg> <id>` and
    the status plus the fingerprint computed by the Lean driver (known findings are matched on that)."""
    n = 330 if ctx.tier == "quick" else 100000
    if not svlib.cargo_build(ctx, [BIN]):
        return
    cases = os.path.join(ctx.work, "fmt.%s.cases" % ctx.seed)
    rc, out = svlib.run_harness(ctx, BIN, ["--out", cases, "--n", str(n), "--mode", "c19",
                                           "--corpus", os.path.join(svlib.VERIF, "corpus/c19.txt")], timeout=3000)
    if rc != 0:
        ctx.broken.append({"kind": "harness-run", "bin": BIN, "rc": rc, "tail": out[-800:]})
        return
    answers = cases + ".answers"
    if not svlib.build_driver(ctx, AREA) or not svlib.run_driver(ctx, AREA, cases, answers):
        return
    na = 0
    with open(cases, encoding="utf8", errors="replace") as fc, open(answers, encoding="utf8", errors="replace") as fa:
        for i, (c, a) in enumerate(zip(fc, fa)):
            na += 1
            kv = svlib.parse_answer(a)
            case_part, _, impl_part = c.rstrip("\n").partition(" ;; ")
            cf = case_part.split(" ")
            short_case = " ".join(cf[:3])
            impl_f = impl_part.split(" ")
            short_impl = impl_f[0] + ((" " + impl_f[-1]) if impl_f[-1].startswith("parses=") else "")
            if "fp" in kv:
                short_impl += " fp=" + kv["fp"]
            ctx.evaluations += 1
            st = kv.get("status", "?")
            ctx.count("fmt.status=%s" % st)
            ctx.count("fmt.cfg=%s" % (cf[1] if len(cf) > 1 else "?"))
            var = cf[2].split("#")[-1].rstrip("0123456789") if len(cf) > 2 else "?"
            ctx.count("fmt.variant=%s" % var)
            for k in ("size", "comments"):
                if k in kv:
                    ctx.count("fmt.%s=%s" % (k, kv[k]))
            if st in ("ok", "nolex"):
                ctx.distinct.add(hashlib.sha1(short_case.encode()).hexdigest()[:16])
            if len(ctx.samples) < 6 and i % 97 == 0:
                ctx.samples.append({"step": "fmt", "case": short_case + " <%d tokens>" % (cf[3].count(".") + 1 if len(cf) > 3 else 0),
                                    "impl": short_impl, "model": a.strip()[:200]})
            if kv.get("prop") != "1":
                ctx.failing.append({"step": "fmt", "line_no": i, "case": short_case, "impl": short_impl, "answer": a.strip()[:300],
                                    "replay": "VERIF_SEED=%d VERIF_TIER=%s harness/target/debug/sv_c18 --show %s %s" % (
                                        ctx.seed, ctx.tier, cf[1] if len(cf) > 1 else "?", cf[2] if len(cf) > 2 else "?")})
            elif kv.get("agree") != "1":
                ctx.disagree.append({"step": "fmt", "line_no": i, "case": short_case, "impl": short_impl, "answer": a.strip()[:300]})
    nc = sum(1 for _ in open(cases, encoding="utf8", errors="replace"))
    if nc != na:
        ctx.broken.append({"kind": "driver-line-count", "step": "fmt", "cases": nc, "answers": na})
    ctx.extra["programs"] = ctx.evaluations


SPEC = dict(
    id="C19", level="translation_validation",
    lean_targets=["SwayVerif.Props.C19"], audit="SwayVerif/Audit/C19.lean",
    theorems=["normTok_idempotent", "normTok_sublist", "FmtOk_refl", "FmtOk_trans", "FmtOk_symm", "check_sound",
              "check_complete", "FmtOk_spelled_out", "C19_partial"],
    steps=[], custom=[validate],
    rule="FIRST the generated-source stream of sv_c18 (3636 small programs: every binary/unary operator, chains, calls, literals in short and line-wrapping form in every statement position; item kinds x comment texts x blank-line runs; see checks/c18.py) under the default config and one other; THEN every .sw file under /repo that the real parser accepts (thorough: all; quick: 330 seed-sampled), as it is and in "
         "2-3 variants (blank lines, trailing blanks, re-indentation, CRLF, white space and `//`, `/* */`, `///` comments "
         "inserted at arbitrary token boundaries / line ends; deterministic in seed+path), under the default config and one "
         "(quick) / all (thorough, unmodified file) of: newline_style Windows/Unix, max_width 60/140, hard_tabs, "
         "newline_threshold 2, field_alignment. out = real Formatter::format(src) under catch_unwind; the token-and-comment "
         "streams of src and out come from the real lexer (sway_parse::lex_commented), parses from the real parser; the Lean "
         "driver evaluates the proved validator fmtCheck src out parses (prop). A FormatterError or panic is not a C19 "
         "violation (tallied as status). distinct by (cfg,id) where the formatter produced output",
    trusted_base=["Model/FmtSpec.lean: the statement of FmtOk and the list of documented cosmetic rewrites R1-R6 (each with a "
                  "pointer to the swayfmt/sway-parse code or test that does it on purpose)",
                  "the real lexer and parser (sway-parse) produce the token streams and the parses flag; harness flattening "
                  "of the token tree (groups -> open/close tokens, comments interleaved)",
                  "NOT modelled: the formatter; sortUse (R4) has no proved normal-form theorem",
                  "fingerprint `fp=` (Lean driver diagnostics) only routes known findings, it is not part of the verdict"],
    assumptions=["token spacing (Joint/Alone) is white space and is not compared; `parses` covers re-lexing of joined punctuation",
                 "a comment is identified by its text modulo trailing white space and CR before LF",
                 "a source on which the formatter returns an error or panics is outside the statement of C19"],
)


def run(tier, seed):
    return svlib.run_spec(SPEC, tier, seed)


MANIFEST = dict(
    claimed=True,
    technique="Lean 4 specification (normal form of the documented cosmetic rewrites) with proved meta-properties and a proved "
              "validator fmtCheck, executed on the output of the real formatter for every repository file and generated variants",
    text="translation_validation: check_sound/check_complete (fmtCheck decides FmtOk exactly), normTok_idempotent, FmtOk "
         "reflexive/symmetric/transitive are proved; the formatter is not modelled (C19_partial says so); C19 is decided per input.",
    note="trusted: Lean kernel, statement of FmtOk and the rewrite list R1-R6, real lexer/parser, harness. The unchanged upstream "
         "formatter violates C19 (string literals rewritten from their parsed value, enum where clause dropped, comments lost after "
         "leading white space: repaired by fix: commits; annotations dropped under field_alignment, blank lines inserted inside "
         "tokens after single-import brace removal, comments at unsupported token boundaries dropped: listed in known_findings.json).",
)
