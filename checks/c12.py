import svlib

SPEC = dict(
    id="C12", level="proof",
    lean_targets=["SwayVerif.Props.C12"], audit="SwayVerif/Audit/C12.lean",
    theorems=["C12_readback", "C12_member_readback", "slots_contiguous", "serialize_none_iff", "C12_disjoint_partial",
              "C12_readback_all_partial", "key_preimage_injective", "key_preimage_domain", "C12_prop_of_model"],
    steps=[dict(bin="sv_c12", area="c12", n_quick=72, n_thorough=360, corpus="corpus/c12.txt",
                dist_keys=("kind", "nsl", "keykind", "unitvar", "nsdepth", "nsubs"), timeout=3000,
                nontrivial=lambda case, impl, kv: kv.get("kind") in ("struct", "enum", "str", "decl"))],
    rule="random `storage {..}` declarations (24 fields per random contract; a SYSTEMATIC family of 91 fields — every leaf type x 13 wrapper shapes, all values non-zero and distinct per position, one contract at the root and one in a namespace, explicit keys included — and a fixed regression scenario run first on every run; random values of sub-word types are never zero; random types: u8/u16/u32/u64/bool/b256/u256/str[N], nested tuples, "
         "named structs, enums incl. unit variants and Option<T>, namespaces up to depth 2 with repeated field names, "
         "explicit `in` keys incl. the top of the key space) compiled by the real forc-pkg/sway-core; per field one case: "
         "emitted storage_slots vs Lean serializeToSlots (agree), in-VM `storage.f.read()` + raw memory image + reads of "
         "direct struct members through forc-test vs the declared initializer (prop) and vs the Lean read model (agree); "
         "implicit key = sha256(0x00 ++ documented path string) computed by the harness with the sha2 crate (prop); one "
         "`decl` case per contract: slot key sets of the fields pairwise disjoint, no stray slot (prop). "
         "non-trivial = aggregate / string / whole-declaration cases; a fixed scenario package (regressions) runs first",
    trusted_base=["Model/Storage.lean: serialize_to_storage_slots/serialize_to_words (padding rule), add_to_b256 overflow = "
                  "explicit none, read_quads + slot_calculator, compile_get_storage_key slot/offset arithmetic, "
                  "get_storage_key_string — transliterated; constants' types are implicit in the value (union size carried)",
                  "SHA-256 is not modelled: keys are arbitrary naturals in every theorem; the harness computes sha256 with the "
                  "sha2 crate; the multi-field theorems assume keysSpaced (evaluated on the concrete keys of every run)",
                  "modelled, not verified: const-evaluation of initializer expressions (harness writes literals only), the "
                  "FuelVM state instructions (SRWQ/SWWQ semantics assumed: unset slot reads as zeros + flag), ABI log encoding",
                  "separators/domain byte are hand-copied from sway-utils/src/constants.rs (no translator); tied on every run by "
                  "the key check of each implicit-key field"],
    assumptions=["identifiers are ASCII (pre-image bytes = characters)",
                 "key + number of slots < 2^256 (otherwise the compiler panics in add_to_b256 — modelled as none, reported as a C17 candidate)",
                 "zero-sized fields (unit, empty struct, str[0]) are outside the property: read() of them reverts by design",
                 "arrays in storage are unimplemented in the compiler (panic; C17 candidate) and not generated"],
)

def run(tier, seed):
    return svlib.run_spec(SPEC, tier, seed)

MANIFEST = dict(
    claimed=True,
    technique="Lean 4 theorems about a transliterated model of slot emission and slot reads (any key; hash as hypothesis) + "
              "differential correspondence: real compiler's storage_slots and real in-VM reads (forc-test) on random declarations",
    text="proof (partial by the hash hypothesis): C12_readback / C12_member_readback hold for every well-formed constant of the "
         "modelled universe and ANY key; slots_contiguous; key_preimage_injective (separator analysis under ValidIdent); "
         "C12_disjoint_partial and C12_readback_all_partial assume keysSpaced (a fact about SHA-256 outputs, checked on the "
         "concrete keys of every generated declaration). The model is tied to /repo on every run: emitted slots, in-VM reads "
         "of whole fields and struct members, raw memory images, documented key hash.",
    note="trusted: Lean kernel + propext/Classical.choice/Quot.sound; statement of the memory layout `Val.mem`; harness "
         "generator and sha2; FuelVM. Not modelled: const-eval of arbitrary initializer expressions, arrays (compiler panics).",
)
