import hashlib, os, subprocess
import svlib


def gen_sites(ctx):
    out = subprocess.run(["python3", os.path.join(svlib.VERIF, "gen/hash_iter_sites.py"), svlib.REPO,
                          os.path.join(svlib.LEAN, "SwayVerif/Generated/HashIterSites.lean")],
                         capture_output=True, text=True)
    ctx.generated["HashIterSites.lean"] = out.stdout.strip()
    if out.returncode != 0:
        ctx.broken.append({"kind": "translator", "name": "hash_iter_sites", "stderr": out.stderr[-500:]})


SPEC = dict(
    id="C15", level="proof",
    gen=[gen_sites],
    lean_targets=["SwayVerif.Props.C15"], audit="SwayVerif/Audit/C15.lean",
    theorems=["candCmp_eq_iff", "spillChoice_perm", "spillOffsets_perm", "spillOffsets_slots", "sortByField_perm",
              "findBy_perm", "grow_perm_partial", "C15_sites_reviewed"],
    steps=[dict(bin="sv_c15", area="c15", n_quick=5, n_thorough=40, dist_keys=("kind", "runs"), timeout=3000,
                nontrivial=lambda case, impl, kv: kv.get("kind") == "ok")],
    rule="packages (2 fixed larger ones + seed-chosen e2e/example packages depending only on path deps) are staged "
         "to scratch and built 3x per profile (debug, release) in FRESH processes in parallel (new RandomState per "
         "process, different rayon thread counts); one case = one (package, profile); digests of bytecode, JSON ABI, "
         "storage-slots JSON compared. non-trivial = package compiled (kind=ok)",
    trusted_base=["gen/hash_iter_sites.py (text-level translator: finds iterations over identifiers bound to a std "
                  "HashMap/HashSet in asm generation, IR optimisation/analysis, forc-pkg/pkg.rs, ABI/storage generation; "
                  "identifiers bound without a visible type are missed — the process-level differential is the catch-all)",
                  "Model/DetermSites.lean: the reviewed classification of each site (human judgement, justified per site)",
                  "Model/Determ.lean: kernels transliterated from color_interference_graph's max_by comparator, "
                  "spill_offsets, standardize_json_abi_types, grow_called_function_used_globals_set"],
    assumptions=["FxHashMap/FxHashSet iteration is a function of the insertion sequence (fixed hasher, integer/slot keys), "
                 "so only std RandomState containers are obligations",
                 "distinct JSON-ABI concrete types have distinct type strings (ids are hashes of the strings)"],
)

MANIFEST = dict(
    claimed=True,
    technique="Lean 4 theorems: permutation-invariance of every kernel that consumes a hash container's iteration order "
              "+ generated-site-list coverage by decide; process-level differential rebuild",
    text="proof (partial): for ALL inputs the spill-candidate max_by (total tie-break), spill_offsets (sort), ABI concrete-type "
         "sort, manifest find and the globals-DCE call-graph closure are invariant under any permutation of the hash "
         "container's iteration order; every std-hash iteration site found in /repo's current source by the translator is "
         "in the reviewed list (a new site breaks C15_sites_reviewed). The whole compiler is NOT modelled: that the build "
         "is a function of the package is decided per package by rebuilding in fresh processes and comparing bytes.",
    note="partial: kernels + site coverage are proved, whole-pipeline determinism is sampled. Trusted: translator, site "
         "classification, rustc. Thread-timing nondeterminism is exercised only through parallel child processes with "
         "different rayon pool sizes.",
)


def run(tier, seed):
    return svlib.run_spec(SPEC, tier, seed)
