import os
import sys

import svlib

sys.path.insert(0, os.path.join(svlib.VERIF, "gen"))
import pass_pipeline  # noqa: E402

_DIST = ("kind", "skip", "why", "dbg", "samecode")


def _nontrivial(case, impl, kv):
    return kv.get("skip") == "0"


def _skip_guard(ctx):
    total = sum(v for k, v in ctx.dist.items() if ".skip=" in k)
    skipped = sum(v for k, v in ctx.dist.items() if k.endswith(".skip=1"))
    ctx.extra["programs"] = total
    ctx.extra["programs_skipped"] = skipped
    if total and skipped * 100 > 15 * total:
        ctx.broken.append({"kind": "too-many-skipped", "skipped": skipped, "total": total})


SPEC = dict(
    id="C02", level="translation_validation",
    lean_targets=["SwayVerif.Props.C02"], audit="SwayVerif/Audit/C02.lean",
    theorems=["pipeline_preserves_of_passes", "asmChain_preserves", "asm_rounds_preserve", "C02_partial"],
    gen=[pass_pipeline.gen],
    steps=[dict(bin="sv_c01", area="c02", n_quick=70, n_thorough=360, corpus="corpus/c01.txt",
                args=["--pkg-size", "45", "--e2e", "auto"], dist_keys=_DIST, nontrivial=_nontrivial, timeout=5400)],
    custom=[_skip_guard],
    rule="the program stream of C01 (random well-typed programs incl. near-duplicate functions and constant-rich code, "
         "the corpus, a handful of e2e scripts), each built by the real compiler in the debug (OptLevel::Opt0) and the "
         "release (OptLevel::Opt1) profile and run on the real FuelVM: one case = one program, prop = same revert "
         "status and same logged payloads in the same order (e2e: same returned value); gas, code size, metadata "
         "ignored. The Lean reference semantics is consulted only to classify a difference (why=...).",
    trusted_base=["Model/PassMgr.lean: PassManager::run (flatten, per-round loop, rounds loop with early break) and the "
                  "asm optimiser's MAX_OPT_ROUNDS loop transliterated; passes abstract",
                  "gen/pass_pipeline.py: pattern-matching translator over sway-core/src/lib.rs, sway-ir/src/pass_manager.rs, "
                  "asm_generation/fuel/optimizations/mod.rs (fails closed: unknown shape => UNPARSED name => C02_partial "
                  "does not compile)",
                  "reviewedIrPasses / reviewedAsmSteps in Props/C02.lean: a human-reviewed list, NOT a proof that the "
                  "passes preserve behaviour (C03/C06/C07 hold what is proved about individual passes)",
                  "forc-test keeps only Log/LogData receipts and maps a VM panic to Revert(0)"],
    assumptions=["BuildTarget::Fuel; default experimental features; SWAY_VERIF_IR_PASSES unset"],
)


def run(tier, seed):
    return svlib.run_spec(SPEC, tier, seed)


MANIFEST = dict(
    claimed=True,
    technique="Lean 4 composition theorems over a model of PassManager::run and the asm optimiser loop, pass pipelines "
              "re-extracted from source on every run (decide over the generated lists), + differential execution of "
              "debug vs release builds of generated programs on the real FuelVM",
    text="translation_validation: every generated / corpus / e2e program is built in both profiles with the real compiler "
         "and run on the real VM; status and logs must coincide. proof (composition only): pipeline_preserves_of_passes "
         "and asm_rounds_preserve reduce 'the pipeline preserves behaviour' to 'each pass does'; C02_partial ties the "
         "lists of passes of both pipelines of the working tree to a reviewed list, so adding/removing/renaming a pass "
         "changes a proof obligation.",
    note="Per-pass preservation is not proved here. Known findings on the unchanged tree: out-of-bounds dynamic index "
         "reads differ between profiles (why=dyn-oob-garbage); release deletes unused trapping instructions that debug "
         "keeps (why=dead-trap-eliminated).",
)
