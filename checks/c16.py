import os, subprocess
import svlib

DIST = ("lex", "parse", "src", "size", "multibyte", "bidi_same", "haserrs", "unsupported", "kind", "nest")

SPEC = dict(
    id="C16", level="proof",
    lean_targets=["SwayVerif.Props.C16"], audit="SwayVerif/Audit/C16.lean",
    theorems=["lex_total", "lex_no_panic", "lex_outcome", "lex_spans_in_bounds", "lex_spans_on_char_boundaries",
              "lex_spans_ordered", "span_join_in_bounds", "C16_prop_of_model", "C16_partial"],
    steps=[dict(bin="sv_c16", area="c16", n_quick=9000, n_thorough=150000, corpus="corpus/c16.txt",
                args=["--window", "16384"], dist_keys=DIST, timeout=3000,
                nontrivial=lambda case, impl, kv: kv.get("kind") == "full" and kv.get("src") not in ("file", "filewin"))],
    custom=[],
    rule="LEXER (level proof): every .sw file under /repo (quick: 400 sampled by seed + all files of at most 200 bytes; "
         "thorough: all), windows of the files larger than the window bound (16384 bytes), and mutations of them (special "
         "character insertion/replacement incl. 2/3/4-byte, astral, bidi controls, NBSP, BOM, NUL; range deletion/duplication; "
         "truncation; ~140 fragments such as unterminated strings/comments, escapes, radix prefixes, huge numbers, raw "
         "identifiers; delimiter deletion/swap; splices from other files; token deletion/duplication/swap/splice on the real "
         "lexer's own token spans), random token soups and the regression corpus. Per case the real "
         "sway_parse::lex_commented runs under catch_unwind and its flattened token tree (kinds, byte spans, parsed "
         "values) and diagnostics (kinds, spans) are compared with the Lean model SwayVerif.Lexer.lex on the same text "
         "with the per-character Unicode classes supplied by the functions the lexer calls (agree; bidi-direction errors "
         "are excluded from the comparison, bidi_same reports them). PARSER (exploration, not proof): the real "
         "sway_parse::parse_file runs on the same text under catch_unwind with a watchdog (20 s, retry 200 s); every "
         "diagnostic (errors, warnings, infos, to_diagnostic labels) is rendered and its span checked in Rust with "
         "text.get(start..end).is_some(); the driver's prop checks these fields and recomputes span validity on the tokens "
         "and lexer errors it received. Inputs larger than the window bound are evaluated in Rust only (`whole` lines, "
         "kind=whole); a failing one is re-emitted in full. `nest` lines: 13 shapes of nested input at depths 32..4096 run "
         "in a child process on a thread with an 8 MiB stack (stack exhaustion aborts the process and cannot be caught "
         "in-process); the in-process worker has a 512 MiB stack and skips inputs with more than 3000 unclosed delimiters. "
         "non-trivial = full cases that are not pristine repository files; distinct by text",
    trusted_base=["Model/Lexer.lean: hand transliteration of sway-parse/src/token.rs lex_commented (start=0, end=len) at byte-offset "
                  "level; every Span::new(..).unwrap(), &text[a..b], Vec unwrap and usize subtraction is recorded; tied to the code "
                  "by the correspondence stream on every run",
                  "character classes (char::is_whitespace, XID_Start, XID_Continue via sway_parse::is_valid_identifier_or_path, "
                  "the 12 unicode_bidi format chars listed in the harness) are parameters of the model: theorems hold for all "
                  "class assignments",
                  "NOT modelled: Parser::parse_to_end and everything behind it (parser.rs, expr/mod.rs, literal.rs, ...): "
                  "exploration only; Ident::new's span.trim() (identity on lexer identifiers, compared through spans); "
                  "lex with start != 0 or end != len; drop / strip_comments of the token tree (recursive)"],
    assumptions=["parse_file is called with the whole text (start = 0, end = text.len()), as sway-core does",
                 "harness crates are built with opt-level=1 and overflow checks: stack frames are larger than in a release forc, "
                 "so nesting depths at which the stack is exhausted are lower than for a release build"],
)


def check_unsupported(ctx):
    n = sum(v for k, v in ctx.dist.items() if k.endswith(".unsupported=1"))
    ctx.extra["model_unsupported_cases"] = n
    if n:
        ctx.broken.append({"kind": "model-unsupported", "count": n})


SPEC["custom"].append(check_unsupported)


def run(tier, seed):
    return svlib.run_spec(SPEC, tier, seed)

MANIFEST = dict(
    claimed=True,
    technique="Lean 4 theorems about a byte-offset model of the lexer (all texts, all Unicode class assignments) + differential "
              "correspondence against lex_commented; parser explored by running parse_file on mutations under catch_unwind",
    text="proof (lexer): lex_total, lex_no_panic, lex_spans_in_bounds, lex_spans_on_char_boundaries, lex_spans_ordered, "
         "span_join_in_bounds hold for ALL inputs of the model of lex_commented; the model is tied to the real lexer on every "
         "run (tokens, spans, parsed values, diagnostics). exploration (parser): parse_file under catch_unwind + watchdog on "
         "every .sw file, their mutations and token soups; every diagnostic span checked. C16_partial states that parser "
         "panic-freedom is not a theorem.",
    note="The unchanged upstream lexer violated the property (three error spans computed with ASCII-only byte arithmetic "
         "panicked on multi-byte input) - repaired by /repo 8d4be8b. Known finding left open: unbounded recursion "
         "(parser, token-tree drop) exhausts the stack on deeply nested input.",
)
