import svlib

SPEC = dict(
    id="C23", level="proof",
    lean_targets=["SwayVerif.Props.C23"], audit="SwayVerif/Audit/C23.lean",
    theorems=["C23_sync", "C23_invalid_rejected", "C23_no_panic", "C23_prop_of_model", "C23_history"],
    steps=[dict(bin="sv_c23", area="c23", n_quick=6000, n_thorough=150000, corpus="corpus/c23.txt",
                dist_keys=("valid",),
                nontrivial=lambda case, impl, kv: " range " in case)],
    rule="random edit histories (1-8 changes per document) over an alphabet of ASCII, 2/3/4-byte UTF-8, astral, "
         "combining, LF and CRLF; positions biased to line ends, past-the-end columns/lines, reversed ranges; "
         "every change is one case: real TextDocument::apply_change vs Lean server model (agree) and vs the LSP "
         "client model (prop). non-trivial = ranged (incremental) change; distinct by (before,range,text)",
    trusted_base=["Model/Doc.lean: server = apply_change/validate_range/try_position_to_index/calculate_line_offsets "
                  "transliterated at byte-offset level; client = LSP 3.17 position semantics (UTF-16 columns, clamp "
                  "to line end before the terminator, line past end = end of document)",
                  "modelled, not verified: tokio fs read in build_from_path, DashMap document store, file write-back"],
    assumptions=["documents use LF or CRLF terminators (a lone CR is treated as line content by the server and "
                 "as a trailing part of the terminator only when directly before LF / end of line)",
                 "a position inside a surrogate pair is an invalid range"],
)

def run(tier, seed):
    return svlib.run_spec(SPEC, tier, seed)
