import svlib

SPEC = dict(
    id="C23", level="proof",
    lean_targets=["SwayVerif.Props.C23"], audit="SwayVerif/Audit/C23.lean",
    theorems=["C23_sync", "C23_invalid_rejected", "C23_no_panic", "C23_prop_of_model", "C23_history"],
    steps=[dict(bin="sv_c23", area="c23", n_quick=6000, n_thorough=150000, corpus="corpus/c23.txt",
                dist_keys=("valid",),
                nontrivial=lambda case, impl, kv: " range " in case)],
    rule="random edit histories (1-8 changes per document) over an alphabet of ASCII, 2/3/4-byte UTF-8, astral, "
         "combining, LF and CRLF; positions biased to line ends, past-the-end columns/lines, reversed ranges; "
         "every change is one case: real TextDocument::apply_change vs Lean server model (agree) and vs the LSP "
         "client model (prop). non-trivial = ranged (incremental) change; distinct by (before,range,text)",
    trusted_base=["Model/Doc.lean: server = apply_change/validate_range/try_position_to_index/calculate_line_offsets "
                  "transliterated at byte-offset level; client = LSP 3.17 position semantics (UTF-16 columns, clamp "
                  "to line end before the terminator, line past end = end of document)",
                  "modelled, not verified: tokio fs read in build_from_path, DashMap document store, file write-back"],
    assumptions=["documents use LF or CRLF terminators (a lone CR is treated as line content by the server and "
                 "as a trailing part of the terminator only when directly before LF / end of line)",
                 "a position inside a surrogate pair is an invalid range"],
)

def run(tier, seed):
    return svlib.run_spec(SPEC, tier, seed)

MANIFEST = dict(
    claimed=True,
    technique="Lean 4 theorem (refinement of the LSP client text by the server's byte-offset model, lifted to histories by induction) + differential correspondence against TextDocument::apply_change",
    text="proof: C23_sync/C23_invalid_rejected/C23_no_panic/C23_history hold for ALL documents (any Unicode), ranges and "
         "histories of the model of TextDocument (byte offsets, UTF-8/UTF-16 arithmetic, Rust slice panics explicit); the "
         "model is hand-written and tied to the real code on every run by driving apply_change with random edit histories "
         "and comparing every result with the model (agree) and with the LSP client model (property predicate).",
    note="trusted: Lean kernel + propext/Classical.choice/Quot.sound; the statement of the client model (LSP 3.17 position "
         "semantics, LF/CRLF terminators; lone CR not a terminator); the harness generator; rustc. Modelled not verified: "
         "the file read in build_from_path, DashMap store, write-back to disk. The unchanged upstream code violated the "
         "property (UTF-16 column used as byte offset, no clamp) — repaired by a fix: commit, listed in known_findings.json as fixed.",
)
