import svlib
from gen import codec_trivial, mem_repr

SPEC = dict(
    id="C09", level="translation_validation",
    lean_targets=["SwayVerif.Props.C09"], audit="SwayVerif/Audit/C09.lean",
    theorems=["decode_encode", "decode_sound", "C09_canonical", "encode_prefix_free", "encode_injective",
              "encode_length", "decode_total", "C09_prop_of_model_encode", "C09_prop_of_model_decode",
              "C09_roundtrip_impl_partial"],
    gen=[codec_trivial.gen, mem_repr.gen],
    steps=[dict(bin="sv_c09", area="c09", n_quick=1500, n_thorough=8000, corpus="corpus/c09.txt",
                args=["--mode", "c09", "--per-pkg", "240"], timeout=3000,
                dist_keys=("kind", "class", "depth", "len", "triv", "abi", "valid"),
                nontrivial=lambda case, impl, kv: kv.get("depth", "0") != "0")],
    rule="FIRST, on every run, a systematic enumeration of ~420 small type shapes (leaves: sub-word / word / multi-word ints, unit, [u8;N] N in {1,3,7,8,9,12,16,33}, [bool;5], str[N]; every depth-1 aggregate kind over them: structs/tuples with 1-3 fields (each leaf first/middle/last), enums with 1-3 variants (all-equal payloads, a unit variant on either side, mixed sizes), arrays of 0-3, Vec, Option; a depth-2 layer wrapping every third shape in a 1-field struct / struct with a u8 neighbour / array of 2 / Vec / enum variant), one value + canonical decode each; THEN "
         "random type trees (depth <= 4, width <= 5; generated struct/enum declarations, Option/Result, Vec/Bytes/"
         "String/str/raw_slice, str[N], zero-sized types) with boundary-biased values, 2 values per type; each value is "
         "a Sway #[test] compiled by the real compiler and run on the real FuelVM: log(v) (fast path when the type is "
         "trivial), encode_configurable(v) (plain abi_encode) and abi_decode::<T>(canonical bytes [+ trailing bytes]) "
         "re-logged. The type tree used for the expected bytes is re-derived from the JSON ABI the compiler emitted "
         "(loggedTypes -> concreteTypes/metadataTypes, generics resolved). Every line is a program; non-trivial = "
         "composite type; distinct by (type, value).",
    checker_cmd="cd /verif && python3 gen/codec_trivial.py && python3 gen/mem_repr.py && cd lean && lake build "
                "SwayVerif.Props.C09 svdriver_c09 && lake env lean SwayVerif/Audit/C09.lean  # proof obligations; then "
                "harness/target/debug/sv_c09 --mode c09 | .lake/build/bin/svdriver_c09 decides each generated program",
    trusted_base=["Model/Ty.lean `encode`/`decode`: the canonical Fuel ABI encoding as read off codec.sw / "
                  "compile_encode_buffer_append / abi_encoding.rs (big-endian; u8,bool 1 byte; u16 2; u32 4; u64 8; "
                  "u256,b256 32; str[N] N bytes; enum = u64 tag + payload; Vec/Bytes/String/str/raw_slice = u64 length "
                  "+ items); the statement, not the Sway code, is what the theorems are about",
                  "harness/src/tygen.rs: generator, Sway rendering of values, abi_to_ty (JSON ABI -> type tree; Vec/"
                  "Bytes/String/TrivialEnum recognised by their std path), forc-test receipts -> bytes",
                  "gen/codec_trivial.py, gen/mem_repr.py (pattern matchers over source text, fail closed)"],
    assumptions=["decoding is only exercised on inputs at least as long as what the decoder reads: the real "
                 "BufferReader does no bounds checks (it reads whatever follows the buffer); the model decoder is "
                 "bounds-checked and rejects short input",
                 "str/String/str[N] contents are printable ASCII in the generated programs (bytes are arbitrary in the "
                 "theorems); Vec length <= 4, tuple arity <= 5 in programs (unbounded in the theorems)",
                 "returned data of contract methods uses the same `encode` path as log (encode_and_return): not "
                 "separately executed here (C11 exercises contract calls)"],
)


def run(tier, seed):
    return svlib.run_spec(SPEC, tier, seed)


MANIFEST = dict(
    claimed=True,
    technique="translation validation of generated Sway programs on the real compiler + FuelVM against a Lean 4 "
              "specification of the canonical ABI encoding whose algebra (decode∘encode = id, decode sound, injective, "
              "prefix-free, length formula) is proved for all types and values",
    text="translation_validation: per generated program (random type tree + value) the bytes the real FuelVM logs for "
         "log(v) / abi_encode and the value abi_decode reconstructs are compared with the Lean spec `encode`/`decode` "
         "evaluated at the type tree re-derived from the program's JSON ABI. Proof obligations discharged in Lean for ALL "
         "types/values/nestings: decode_encode, decode_sound (C09_canonical), encode_injective, encode_prefix_free, "
         "encode_length, decode_total, and that the driver's predicates accept exactly the canonical bytes.",
    note="the all-types quantifier is reached for the specification and for the implementation MODEL with its fast paths "
         "(C09_roundtrip_impl_partial, excluding std::codec::TrivialEnum — known finding C09-trivialenum); the compiler-"
         "generated abi_encode/abi_decode bodies are tied by execution of sampled programs, their generator is only "
         "shape-checked by gen/codec_trivial.py. Trusted: Lean kernel, the statement of `encode`, harness, translators.",
)
