import os
import sys

import svlib

_DIST = ("cls", "kind", "skip", "why", "nlogs")


def _nontrivial(case, impl, kv):
    # a program that was compiled, run in both profiles and compared with the reference semantics
    return kv.get("skip") == "0"


def _skip_guard(ctx):
    """The generator must stay inside the fragment: model `unsupported`/`outOfFuel`/no-bytecode answers are not
    failures, but a stream that is mostly skipped checks nothing."""
    total = sum(v for k, v in ctx.dist.items() if ".skip=" in k)
    skipped = sum(v for k, v in ctx.dist.items() if k.endswith(".skip=1"))
    ctx.extra["programs"] = total
    ctx.extra["programs_skipped"] = skipped
    if total and skipped * 100 > 15 * total:
        ctx.broken.append({"kind": "too-many-skipped", "skipped": skipped, "total": total})


SPEC = dict(
    id="C01", level="translation_validation",
    lean_targets=["SwayVerif.Props.C01"], audit="SwayVerif/Audit/C01.lean",
    theorems=["arith_add_spec", "arith_sub_spec", "arith_mul_spec", "arith_div_spec", "arith_mod_spec",
              "arith_shl_spec", "arith_shr_spec", "arith_not_spec", "arith_result_in_range", "div_mod_zero_reverts",
              "index_oob_reverts", "eval_deterministic", "eval_fuel_mono", "eval_fuel_mono_skip",
              "eval_outcome_unique", "welltyped_no_stuck_partial", "C01_partial"],
    steps=[dict(bin="sv_c01", area="c01", n_quick=70, n_thorough=360, corpus="corpus/c01.txt",
                args=["--pkg-size", "45", "--e2e", "auto"], dist_keys=_DIST, nontrivial=_nontrivial, timeout=5400)],
    custom=[_skip_guard],
    rule="random well-typed Sway programs over an explicit AST (harness/src/proggen.rs: u8/u16/u32/u64/u256, bool, "
         "tuples, structs, enums, arrays; + - * / % << >> & | ^ !, comparisons, && || !, widening casts, field / index "
         "access and assignment paths, if / match (enum, int, bool, tuple patterns) / blocks as expressions, while with "
         "break / continue, early return, assert / require / revert, generic and non-generic helper functions incl. "
         "near-duplicates and `const` items; operands either constant-rich or passed through #[inline(never)] "
         "identities), 45 programs per package (3 packages side by side), each package built by the real forc-pkg/sway-core in the debug AND "
         "the release profile (worker processes with a timeout) and every program run on the real FuelVM through "
         "forc-test. One case = one program: revert status, revert code and every LOGD payload of both builds compared "
         "with SwaySem.run of the same AST. Every 12th program ends in an out-of-bounds dynamic index (`prog-oob`). "
         "Plus a seed-chosen handful of e2e `should_pass/language` script programs run as scripts with the "
         "maintainer-written expected result. Skipped (counted, capped at 15%): model unsupported/outOfFuel, no bytecode.",
    trusted_base=["Model/SwaySem.lean: the reference semantics (left-to-right evaluation, value semantics of aggregates, "
                  "ops.sw recipes over a FuelVM ALU model, ABI encoding v1 of logged values); hand-written from the Sway "
                  "book + ops.sw + fuel-vm 0.66 ALU, tied to the real toolchain only by this differential check",
                  "harness/src/proggen.rs: the printer AST -> .sw text and AST -> S-expression (a printer bug shows up "
                  "as a disagreement, never silently)",
                  "forc-test reports a VM panic as Revert(0) and keeps only Log/LogData receipts: a VM panic and "
                  "`revert(0)` after the same logs are indistinguishable",
                  "NOT modelled / no proof content: the compiler (parser, type checker, IR generation, IR passes, asm "
                  "generation, register allocation), the FuelVM itself"],
    assumptions=["programs are closed (no inputs, no storage, no contract calls), terminate within the fuel/gas bounds, "
                 "and stay within the generator's size bounds (expression depth <= 4, <= 40 statements, loops <= 5 "
                 "iterations nested <= 2) -- a testing bound",
                 "new ABI encoding (the default experimental feature set of this tree)"],
)


def run(tier, seed):
    return svlib.run_spec(SPEC, tier, seed)


MANIFEST = dict(
    claimed=True,
    technique="Lean 4 reference semantics (definitional interpreter, arithmetic = ops.sw recipe over a FuelVM ALU model) "
              "with proved arithmetic rules and fuel monotonicity + per-program translation validation of the real "
              "compiler (debug and release) on the real FuelVM against it",
    text="translation_validation: the compiler is not modelled; for every generated program of the stated fragment and a "
         "handful of e2e scripts the outcome of the real debug and release builds on the real VM is compared with "
         "SwaySem.run (status, revert code, every logged payload). proof: the documented arithmetic rules "
         "(arith_*_spec for u8/u16/u32/u64/u256 incl. range checks, div/mod by zero, shifts, not) hold of the "
         "ops.sw recipe for ALL operands; index_oob_reverts; eval_fuel_mono / eval_outcome_unique (the prescribed "
         "outcome is well defined). C01_partial states exactly this split.",
    note="Two violations of the property text exist on the unchanged tree and are registered as known findings: a "
         "dynamic out-of-bounds array index does not revert (why=dyn-oob-no-revert) and trapping instructions with an "
         "unused result are deleted in both profiles (why=dead-trap-eliminated). Trusted: Lean kernel, the statement of "
         "SwaySem, the generator's two printers, forc-test's receipt filtering.",
)
