import svlib

SPEC = dict(
    id="C26", level="translation_validation",
    lean_targets=["SwayVerif.Props.C26"], audit="SwayVerif/Audit/C26.lean",
    theorems=["upToDate_terminates", "tyUpToDate_terminates", "parseUpToDate_terminates", "upToDate_cycle_diverges",
              "cacheInv_of_covers", "cache_inv_preserved", "cache_inv_cancel_gc", "cache_inv_commit_clean",
              "C26_history_partial", "C26_partial",
              "found_window_stale_accepted", "found_window_not_clean", "fixed_window",
              "found_save_reuses_stale_program", "fixed_save_recompiles",
              "found_reenter_stale_accepted", "fixed_reenter", "sibling_import_stale", "runJobL_eq"],
    steps=[dict(bin="sv_c26", area="c26", n_quick=500, n_thorough=12000, corpus="corpus/c26.txt",
                dist_keys=("why", "settle", "last", "kind", "dres", "nondet", "races", "crash"), timeout=3000,
                nontrivial=lambda case, impl, kv: case.startswith("step "))],
    rule="random edit histories (8-20 edits: insert/delete fn/struct/const items, rename a definition and — in separate "
         "edits — its uses in the other modules, introduce and later repair a type error / a syntax error, add a use of "
         "a sibling's item, comment edits, save, comment out and restore a `mod` declaration, edit a submodule then the "
         "root; about a quarter of the edits are sent while the previous compilation is still running, which cancels it) "
         "over two no-std packages (script with two sibling submodules; library with a nested submodule) on a REAL "
         "in-process sway-lsp ServerState with garbage collection on. After every settled edit: diagnostics per file + "
         "token ranges/names + semantic token types (not on `use` lines) + document symbols of the incremental server vs "
         "those of a fresh server opened on the same text (prop), the committed module cache vs the Lean replay of the "
         "observed events (agree), and every is_*_module_cache_up_to_date decision taken (hook trace) vs the Lean "
         "decision functions on the traced cache snapshot (agree). non-trivial = step lines; distinct by history prefix.",
    trusted_base=["Model/Cache.lean: upToDateG/tyChk/parseChk/parseTree/tyTree/runJob transliterate is_ty_module_cache_up_to_date, "
                  "is_parse_module_cache_up_to_date, parse_module_tree's cache priming, TyModule::type_check's cache use and the "
                  "worker's commit rule; tied on every run by the decision trace (hook sway_core::verif_hooks::cache) and by the "
                  "committed-cache comparison",
                  "the fresh-compilation oracle is a second ServerState opened on a copy of the present text (same flags, same code path)",
                  "modelled, not verified: the typed AST itself, diagnostics, token map, garbage collection of the type/decl engines — "
                  "covered only by the per-history comparison; `explain` (Model/Cache.lean) only names the defect class of a mismatch"],
    assumptions=["document versions handed out by the client increase (LSP)",
                 "a module's dependencies lie deeper in the directory tree than the module (acyclic `dependencies`); the one "
                 "exception, a root file that declares itself as submodule, makes the compiler itself recurse without bound",
                 "per-module result depends on the module's own text (C26_partial); false for sibling imports — witnessed and "
                 "reported as a finding, not assumed by the per-history validation",
                 "semantic token types on `use` lines are excluded from the comparison: they differ between two fresh servers "
                 "(parsed vs typed traversal race)"],
)

def run(tier, seed):
    return svlib.run_spec(SPEC, tier, seed)

MANIFEST = dict(
    claimed=True,
    technique="Lean 4 theorems about a model of the module-cache protocol (up-to-date checks, parse/type-check cache updates, "
              "copy-on-write commit, cancellation, GC) + per-history validation of the real language server against a fresh "
              "server + decision-trace and committed-cache correspondence with the model",
    text="translation_validation: every settled edit of random edit histories on a real in-process sway-lsp server is compared "
         "with a fresh server on the same text (diagnostics, tokens, symbols); proof (partial): for ALL module graphs/texts/"
         "versions the recursive up-to-date check terminates on acyclic dependencies, an accepted entry is current whenever "
         "file_versions covers the stale entries, and histories in which every edit is compiled and committed before the next "
         "edit (edited file inside the program) keep the cache free of stale typed modules (C26_history_partial, C26_partial). "
         "The invariant is false for the protocol as coded outside these histories: four machine-checked negation witnesses, "
         "each replayed on the real server.",
    note="The unchanged code violates the property in several ways (known_findings.json C26-*): typed modules of unchanged "
         "files are reused although a module they import from changed / was garbage collected (stale diagnostics, ICE "
         "diagnostics, compiler-thread panic), reused modules lose their diagnostics, an edit whose compilation was cancelled "
         "is never recompiled (file_versions says None), a module that left and re-entered the program keeps its old typed "
         "module, tokens of unmodified files are not rebuilt. Fixed: didChange returned before the text was on disk (missing "
         "flush). Trusted: Lean kernel; the model's correspondence (checked per run); the harness's canonicalisation.",
)
