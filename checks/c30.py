import os
import subprocess
import svlib


def gen_fetch_steps(ctx):
    out = subprocess.run(["python3", os.path.join(svlib.VERIF, "gen/fetch_steps.py"), svlib.REPO],
                         capture_output=True, text=True)
    if out.returncode != 0:
        ctx.broken.append({"kind": "translator", "name": "gen/fetch_steps.py", "stderr": out.stderr[-500:]})
    ctx.generated["FetchSteps.lean"] = out.stdout.strip()


SPEC = dict(
    id="C30", level="proof",
    lean_targets=["SwayVerif.Props.C30"], audit="SwayVerif/Audit/C30.lean",
    theorems=["C30_safe", "C30_never_partial", "C30_final_gone_or_full", "C30_refetch_completes",
              "C30_safe_history", "C30_faultState_mem", "C30_code_shape", "C30_orig_uses_partial", "C30_orig_stuck"],
    gen=[gen_fetch_steps],
    steps=[dict(bin="sv_c30", area="c30", n_quick=120, n_thorough=4000, corpus="corpus/c30.txt",
                dist_keys=("kind", "mode", "lock", "ref", "n", "class", "implnext", "state"),
                nontrivial=lambda case, impl, kv: case.startswith("fault "),
                timeout=2400)],
    rule="per generated local git repository (2-8 files, Forc.toml/src/lib.sw at seed-chosen positions of the checkout "
         "order, reference kind branch|tag|rev): the fault points of the real fetch are enumerated by a clean run "
         "(SWAY_VERIF_FAULT_LOG) and must equal the model's program; then for EVERY point x {abort, err} (quick: all "
         "points in one seed-chosen mode + a third in the other) x {no Forc.lock, Forc.lock present} the real "
         "BuildPlan::from_pkg_opts runs in a child process with the fault, the cache is snapshot (final dir, staging "
         "dir, tmp litter; per file complete/truncated/absent), and a fresh later build runs in another child. "
         "agree = model's state and decision equal the observed ones; prop = later build refetched or used the "
         "complete checkout. non-trivial = fault cases; distinct by (point, mode, n, m, e, lock, ref)",
    trusted_base=["gen/fetch_steps.py (text-level translator: order of fs calls / fault points / linking calls in "
                  "with_tmp_git_repo, fetch, <Pinned as Fetch>::fetch, pin; unknown fs call => token 999 => "
                  "C30_code_shape stops checking)",
                  "Model/Fetch.lean: straight-line transliteration of pin/with_tmp_git_repo/Fetch::fetch/fetch (step list "
                  "with the H5 points in place); next build decision = !repo_path.exists(), find_within (parsable "
                  "Forc.toml), entry file parsable",
                  "hook H5 (forc-pkg/src/source/git/verif.rs): points placed after each file-system step; mid-checkout "
                  "I/O errors are real EFBIG write failures inside libgit2 (RLIMIT_FSIZE set by the harness child)",
                  "modelled, not verified: libgit2 writes blobs in index order with O_CREAT|O_TRUNC; rename(2) of a "
                  "directory is atomic w.r.t. process death; advisory file lock serialises fetchers"],
    assumptions=["failure = death of the process or an I/O error return; no loss of already completed writes "
                 "(no power-loss reordering, the code does not fsync)",
                 "the final checkout directory does not exist when fetch starts (guaranteed by the caller's "
                 "`!repo_path.exists()` under the write lock) and fetch_id is unique per process, so the ignored "
                 "`remove_dir_all` errors cannot occur",
                 "a package checkout contains its Forc.toml and entry file (m, e < n)"],
)

def run(tier, seed):
    return svlib.run_spec(SPEC, tier, seed)

MANIFEST = dict(
    claimed=True,
    technique="Lean 4 theorem over all crash/I-O-error prefixes of the fetch step list (any number of files, any step, both failure "
              "kinds, half-done states) + code-shape table regenerated from source + fault-injection correspondence on a local git repository",
    text="proof: C30_safe / C30_never_partial / C30_final_gone_or_full / C30_safe_history hold for every failure point of the model of "
         "the fetch AFTER the fix: commit dafe540 (checkout into a staging directory, one rename into place); C30_code_shape ties the "
         "model's step list to the order of file-system calls in the current source (gen/fetch_steps.py, fail closed); the pre-fix "
         "code is proved unsafe by explicit witnesses (C30_orig_uses_partial, C30_orig_stuck) that were replayed on the real code. "
         "Every fault point x {abort, err} x {with, without Forc.lock} is injected into the real BuildPlan::from_pkg_opts in child "
         "processes and the later build's decision is compared with the model.",
    note="trusted: Lean kernel + propext/Quot.sound; rename(2) of a directory atomic w.r.t. process death; no loss of completed writes "
         "(code does not fsync); libgit2 writes blobs in index order; hook H5 placement; harness. Upstream violated the property "
         "(partial checkout used / stuck error after a crash) — repaired by fix: dafe540.",
)
