import os
import re
import svlib


def e2e_replays(ctx):
    """Informational: replay the candidate findings from real manifests through BuildPlan::from_pkg_opts
    (write Forc.lock, then load it again with --locked). Never fails the check; recorded in the evidence."""
    if not svlib.cargo_build(ctx, ["sv_c20_e2e"]):
        ctx.broken.pop()  # informational step only
        ctx.extra["e2e_replays"] = ["not built"]
        return
    exe = os.path.join(svlib.HARNESS, "target/debug", "sv_c20_e2e")
    rc, out, dt = svlib.sh([exe], cwd=ctx.work, timeout=600)
    res = []
    for l in re.sub(r"/(tmp|var/tmp)/\.tmp\w+", "<tmp>", out).splitlines():
        if " first=" in l and " locked=" in l:
            name = l.split()[0]
            first = l.split(" first=")[1].split(" locked=")[0][:160]
            locked = l.split(" locked=")[1].split(" lock=[")[0][:260]
            res.append({"scenario": name, "first_build": first, "second_build_locked": locked})
            ctx.count("e2e.%s.locked=%s" % (name, "ok" if locked.startswith("ok") else "fails"))
    ctx.extra["e2e_replays"] = res or [out[-300:]]
    ctx.log("e2e replays: " + ", ".join("%s=%s" % (r["scenario"], r["first_build"] + "/" + r["second_build_locked"] if r["second_build_locked"].startswith("ok") else "LOCK-NOT-REREAD") for r in res))


SPEC = dict(
    id="C20", level="proof",
    lean_targets=["SwayVerif.Props.C20"], audit="SwayVerif/Audit/C20.lean",
    theorems=["pinned_roundtrip", "depline_roundtrip", "C20_roundtrip_any_order", "C20_roundtrip", "C20_prop_of_model"],
    steps=[dict(bin="sv_c20", area="c20", n_quick=6000, n_thorough=120000, corpus="corpus/c20.txt",
                dist_keys=("wf", "why", "cls", "eq", "thm", "a", "nodes", "edges", "dis", "contract", "renamed"),
                nontrivial=lambda case, impl, kv: kv.get("wf") == "1" and kv.get("edges") != "0")],
    custom=[e2e_replays],
    rule="random real forc_pkg::Graph values: 1-6 packages (names from a small pool so that same-named packages "
         "from different sources are frequent), sources member / path / git (https, scp-like, ssh; branch, tag, rev, "
         "default-branch) / ipfs (CIDv0, v1) / registry (with and without namespace), 0-2n edges via update_edge with "
         "renamed dependencies, library and contract kinds, zero / small / random salts; 30% adversarial stream "
         "(spaces, parentheses, '#', '?', '!' in names, urls, references, namespaces; duplicate nodes; parallel edges; "
         "a package named like another one's unique string). Each case: real Lock::from_graph -> "
         "toml::ser::to_string_pretty -> file -> Lock::from_path -> to_graph. agree: model writer = real records, "
         "TOML layer identity, model reader = real graph exactly, canonical equivalence = real `==`, model round "
         "trip equivalent when WFGraph. prop: AssumedGraph g (class (a) conjuncts of WFGraph only) -> re-read graph == g (real `==` up to node "
         "numbering); class (b) graphs whose round trip fails are the known findings C20-<why>. "
         "non-trivial = well-formed graph with at least one edge; corpus = the not_wf_witnesses of Props/C20.lean",
    trusted_base=["Model/Lock.lean: Display/FromStr of source::Pinned (member/path/git/ipfs/registry), PinnedId hex, "
                  "Salt hex, pkg_dep_line / parse_pkg_dep_line, names_requiring_disambiguation, PkgLock::from_node, "
                  "Lock::from_graph (BTreeSet as duplicate-free list, any order), Lock::to_graph (HashMap as last-insert-"
                  "wins association, StableGraph::update_edge)",
                  "not modelled, tied by the correspondence check only: toml serialisation + deserialisation of Lock "
                  "(checked to be the identity on the records of every case), BTreeSet order (records handed to the "
                  "model in the real iteration order; the theorem holds for every order)"],
    assumptions=[
        "Ext: a gix_url::Url / cid::Cid / semver::Version is identified with its Display string; WFPinned demands that "
        "string re-parses to itself (checked per case with the real parsers), cid/semver Display is multibase / semver text",
        "type invariants, no real value violates them: PinnedId < 2^64 (u64); Salt Display = 64 lower-case hex "
        "(fuel_types); edge endpoints exist (petgraph); git commit_hash = 40 ASCII alphanumerics "
        "(git::pin: git2::Oid::to_string)",
        "package names contain no space / '(' / surrounding whitespace and are not empty: manifest deserialisation "
        "`manifest::validate_package_name` -> `forc_util::validate_project_name` ([a-zA-Z][a-zA-Z0-9-_]+) and "
        "`pkg::validate_dep_manifest` (graph node name == the dependency's manifest project name); the same covers "
        "'?' in a registry package name",
        "at most one edge per ordered pair of packages: `pkg::fetch_deps` adds edges with `update_edge` only",
        "KNOWN FINDINGS (class (b): reachable from a real manifest, the real round trip fails; NOT excused by the "
        "predicate: such lines get prop=0 why=<conjunct> and are matched by known_findings.json ids C20-<conjunct>, "
        "proposed entries in checks/c20_known_findings.json): dep-name-paren, git-ref-hash, git-url-qmark, "
        "paren-in-source, git-rev-not-commit, duplicate-node, reg-ns-empty, reg-ns-chars, reg-cid-not-v0. "
        "End-to-end (manifest -> BuildPlan -> --locked) confirmations: coverage.e2e_replays",
    ],
)

def run(tier, seed):
    return svlib.run_spec(SPEC, tier, seed)

MANIFEST = dict(
    claimed=True,
    technique="Lean 4 theorem: write/read round trip of the lock-file grammar (Display/FromStr of every source kind, dependency "
              "lines, disambiguation, from_graph/to_graph) for all well-formed graphs and every record order + differential correspondence",
    text="proof: pinned_roundtrip, depline_roundtrip, C20_roundtrip_any_order (WFGraph g -> for every permutation of the written "
         "records to_graph reconstructs the same packages and the same edges with names, kinds, salts) hold of the byte-level "
         "model; every conjunct of WFGraph is justified by a decide-proved witness that the round trip fails without it, and each "
         "witness is replayed on the real code at every run; tied to the real Lock::from_graph -> toml -> to_graph on 6k / 120k "
         "random graphs with adversarial names, sources and salts.",
    note="trusted: Lean kernel + 3 standard axioms; TOML layer checked to be the identity per case; gix_url/cid/semver as a parameter "
         "table supplied per case from the real crates. WFGraph conjuncts that ARE reachable from a real manifest (e.g. ')' in a "
         "dependency alias, '#' in a git branch) are findings, see known_findings.json; conjuncts enforced by forc's validators are assumptions.",
)
