import svlib

SPEC = dict(
    id="C11", level="proof",
    lean_targets=["SwayVerif.Props.C11"], audit="SwayVerif/Audit/C11.lean",
    theorems=["table_offset_correct", "table_complete", "C11_dispatch_sound", "C11_dispatch_hit",
              "C11_dispatch_hit_mem", "C11_dispatch_miss", "C11_prop_of_model"],
    # one case = one in-VM contract call; a contract (1-12 methods + 3-5 unknown names) costs one package build
    # (~15-25 s: the contract is compiled twice by forc-test) => quick = corpus (2 contracts) + ~4 random contracts
    steps=[dict(bin="sv_c11", area="c11", n_quick=60, n_thorough=900, corpus="corpus/c11.txt",
                dist_keys=("hit", "fb", "via", "nmeth", "shared", "maxgroup", "table_ok"),
                nontrivial=lambda case, impl, kv: kv.get("nmeth", "1") != "1" or kv.get("hit") == "0",
                timeout=2400)],
    rule="level `proof` covers the DISPATCH half of C11: Lean theorems over the model of generate_contract_entry's "
         "table-building loop (names literal with str::find sharing, BTreeMap length groups, per-arm len/offset) and of "
         "the generated __entry cascade, for ALL method lists and ALL called names. The END-TO-END call (caller-side "
         "encoding of name and arguments, __entry on the FuelVM, decoding, the method body, the encoded return) is "
         "TRANSLATION VALIDATION: random contracts (1-12 methods over 1-3 impl blocks; names with shared prefixes, equal "
         "lengths, one name a substring of another or of the literal built so far, single chars, non-ASCII, raw "
         "identifier, ~100-byte names; 0-3 arguments and a return value of u64/bool/u8/u32/tuples/struct/enum/array/"
         "b256/unit; with and without #[fallback]) are compiled by the real compiler and every method is called on the "
         "real VM through abi(..,CONTRACT_ID), plus 3-5 names the contract does not have (prefixes, extensions, "
         "same-length substrings of the names literal, the empty name) through a second abi cast or "
         "std::codec::contract_call. Per call: the dispatch table parsed from the dumped __entry source must equal "
         "the model's buildTable and what ran must equal the model's dispatch (agree); the named method ran (or "
         "fallback / revert 123 for an unknown name), the callee logged the caller's argument encodings and the caller "
         "logged the expected return encoding (prop). non-trivial = contract with >1 method or a call of an unknown name",
    trusted_base=["Model/Dispatch.lean: buildTable = the `for r in contract_fns` loop of generate_contract_entry "
                  "(find-or-append at byte level, BTreeMap<usize,String> as a key-sorted association list, arms in "
                  "generation order); dispatch = the generated `if _method_len == k { meq … }` cascade, first match "
                  "returns, then fallback / __revert(123); `meq` outside the literal is an explicit outcome",
                  "hook sway-core/src/verif_hooks/entry.rs: appends the generated __entry source to $SWAY_VERIF_DUMP_ENTRY; "
                  "sv_c11 parses names literal / key / len / offset / callee out of that text",
                  "order of contract_fns (impl blocks in source order, methods of a block in byte order of their names) is "
                  "reproduced by the harness and checked by the table comparison",
                  "argument / return integrity is observed through `log` receipts (ABI encoding of simple types computed "
                  "by the harness); the general encode/decode round trip is C09's theorem, not re-proved here",
                  "forc-test in-process runner (deploys the contract, runs each #[test] as a script on fuel-vm)"],
    assumptions=["method names are pairwise distinct (the compiler rejects a contract otherwise: "
                 "MultipleContractsMethodsWithTheSameName) — hypothesis of C11_dispatch_hit only",
                 "a called name is compared as bytes; the caller passes [u64 BE length][name bytes] as first call parameter "
                 "(method_application.rs method_name_literal / encode(str))",
                 "names literal shorter than 4096 bytes (`addi` takes a 12-bit immediate; beyond that the contract does "
                 "not assemble — a compile error, not a mis-dispatch)"],
)


def run(tier, seed):
    return svlib.run_spec(SPEC, tier, seed)


MANIFEST = dict(
    claimed=True,
    technique="Lean 4 theorems over the model of generate_contract_entry's dispatch table and of the generated __entry "
              "cascade (all method lists, all called names) + translation validation of the end-to-end contract call on "
              "the real compiler and FuelVM (forc-test in-process) with the dumped __entry table compared to the model",
    text="proof (dispatch): table_offset_correct, table_complete, C11_dispatch_sound, C11_dispatch_hit(_mem), "
         "C11_dispatch_miss, C11_prop_of_model hold for ALL method lists (shared prefixes, equal lengths, names sharing "
         "bytes through str::find) and ALL called names; the hand-written model is tied to the code on every run by "
         "comparing buildTable with the table parsed from the generated __entry source of random contracts and the "
         "model's dispatch target with what ran on the VM. translation_validation (end-to-end): every method of every "
         "generated contract is called in-VM with distinctive arguments; callee-side argument logs and caller-side "
         "return logs must match, unknown names must reach the fallback or revert(123).",
    note="partial in the sense of DESIGN §6 C11: argument/return integrity for arbitrary types is C09's decode∘encode "
         "theorem; here it is only observed for the generated types. Trusted: Lean kernel + propext/Classical.choice/"
         "Quot.sound, the dump hook + text parser, the harness's own encoder for the logged types, forc-test/fuel-vm.",
)
