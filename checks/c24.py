import importlib.util
import os

import svlib


def gen_shape(ctx):
    """Regenerates Generated/LspSchedShape.lean (order of the shared accesses) from /repo's working tree."""
    path = os.path.join(svlib.VERIF, "gen", "lsp_sched_shape.py")
    spec = importlib.util.spec_from_file_location("lsp_sched_shape", path)
    mod = importlib.util.module_from_spec(spec)
    spec.loader.exec_module(mod)
    mod.gen(ctx)


SPEC = dict(
    id="C24", level="proof",
    lean_targets=["SwayVerif.Props.C24"], audit="SwayVerif/Audit/C24.lean",
    theorems=["C24_no_stuck_waiter_cfg", "C24_no_stuck_waiter", "C24_latest_compiled_cfg", "C24_latest_compiled",
              "C24_tree_is_fixed", "quiescent_iff_only_spawn", "C24_orig_stuck_waiter", "C24_orig_stuck_waiter_late_store", "C24_orig_lost_edit",
              "C24_orig_lost_edit_open_then_change", "C24_early_store_stuck", "C24_openedFirst_needed"],
    gen=[gen_shape],
    steps=[dict(bin="sv_c24", area="c24", n_quick=24, n_thorough=300, corpus="corpus/c24.txt",
                dist_keys=("accepted", "handlers", "aborted", "waited", "q", "cfg", "len"),
                nontrivial=lambda case, impl, kv: kv.get("handlers", "0") not in ("0", "1")
                and (kv.get("aborted") == "1" or kv.get("waited") == "1"),
                timeout=2400)],
    rule="forced schedules on the REAL sway_lsp ServerState (compilation worker thread + did_open/did_change/did_save "
         "handlers + wait_for_parsing) through hook H6: every shared access (is_compiling, retrigger_compilation, "
         "channel send/try_recv/is_full/is_empty, notified() creation and first poll, notify_waiters, "
         "last_compilation_state) is a held point; the scheduler lets exactly one thread pass one point at a time, "
         "switching handlers only where the real server can (handler future Pending or finished), the worker "
         "anywhere. corpus = the four attack schedules of the negation proofs (adapted to the repaired code) + "
         "cancel/drain schedules + a failing did_open (stray .sw file: the handler returns its look-up error) followed by "
         "a request; then random plans (did_open first, 1-5 further events: open/change/save/wait/openstray+wait) with "
         "uniformly random scheduling choices, run to quiescence. agree = the hook trace is a run of the Lean model "
         "(configuration = shape of the code in the tree) and the model's end state matches the observed one; "
         "prop = quiescent => no waiter blocked (re-checked with a 10x window) and the programs cache of the shared "
         "engines holds the latest document version. non-trivial = >=2 handlers and a cancellation or a real wait; "
         "distinct by schedule",
    trusted_base=["Model/LspSched.lean: the protocol model (worker / handler program counters in code order, tokio "
                  "Notify as a notify_waiters counter snapshotted at notified() creation, crossbeam bounded(1) "
                  "channel as one slot, compilation as check-points/read/finish with the first check mandatory)",
                  "gen/lsp_sched_shape.py + Model/LspSchedTree.lean: text-level extraction of the access order in "
                  "spawn_compilation_thread, wait_for_parsing, send_new_compilation_request and the three handlers, "
                  "and of the number of mentions of the protocol's fields in sway-lsp/src (fail closed)",
                  "hook H6 (sway-lsp/src/verif_sched.rs, verif_point! before each access) and the scheduler of "
                  "harness/src/bin/sv_c24.rs; quiescence is detected by a time window (0.7s quick / 1.5s thorough, "
                  "10x before a hang is reported)",
                  "modelled: handlers returning early from their fallible look-ups (`?` before anything is queued) and a "
                  "failing did_change write; not modelled: shutdown_server (Terminate), panics of "
                  "the worker thread, sway-core's parse/typed module caches (C26), tower-lsp's dispatch"],
    assumptions=["OpenedFirst: the first client event is a didOpen of a file of a valid project (LSP); needed for (a): "
                 "C24_openedFirst_needed (a first didOpen that fails leaves last_compilation_state Uninitialized)",
                 "a did_change whose file write fails has written nothing (IO errors half-way are not modelled)",
                 "the compilation thread does not panic and compilations terminate",
                 "a compilation that completes reads the document as it is on disk at some point after it started "
                 "(sway-core's version-less cache reuse violates this on the real server: known finding "
                 "C24-versionless-cache, owned by C26)"],
)


def run(tier, seed):
    return svlib.run_spec(SPEC, tier, seed)


MANIFEST = dict(
    claimed=True,
    technique="Lean 4 theorems by induction over all interleavings (unbounded events/tasks, handlers pre-emptible "
              "everywhere) of a program-counter model of the flag/channel/notify protocol + trace correspondence: "
              "hook traces of the real server under forced schedules must be runs of the model",
    text="proof: in every reachable quiescent state of the protocol model of the code in the tree no waiter is blocked "
         "(C24_no_stuck_waiter) and the last completed compilation read the latest document version "
         "(C24_latest_compiled); the code before fix 0139219 violated both (four explicit cooperative schedules, proved "
         "and replayed on the real server: hang / edit never compiled). The model configuration is tied to the source "
         "by a regenerated access-order table (C24_tree_is_fixed) and to the running server by accepted hook traces.",
    note="trusted: Lean kernel + 3 axioms; the model; text-level shape translator; hook + scheduler; time-window "
         "quiescence detection. Known finding: version-less (did_open/did_save) requests reuse sway-core's cache (C26).",
)
