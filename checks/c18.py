import svlib

SPEC = dict(
    id="C18", level="translation_validation",
    lean_targets=["SwayVerif.Props.C18"], audit="SwayVerif/Audit/C18.lean",
    theorems=["toWindows_idempotent", "toUnix_idempotent", "toUnix_not_idempotent", "newline_style_idempotent",
              "newline_style_preserves_tokens", "toUnix_subsequence", "newline_clamp_idempotent",
              "newline_clamp_bounded", "C18_partial"],
    steps=[
        dict(bin="sv_c18", label="kernel", area="c18", n_quick=4000, n_thorough=60000, args=["--mode", "kernel"],
             dist_keys=("kernel", "sys", "hyp", "clamped"),
             nontrivial=lambda case, impl, kv: True),
        dict(bin="sv_c18", label="idem", area="c18", n_quick=330, n_thorough=100000, corpus="corpus/c18.txt",
             args=["--mode", "c18"], dist_keys=("status", "cfg"),
             nontrivial=lambda case, impl, kv: kv.get("status") == "ok", timeout=3000),
    ],
    rule="idem: FIRST a generated-source stream (3636 small programs, the same in every run, each under the default config and one of max_width 60/140, hard_tabs, newline_threshold 2, newline_style Windows): every binary operator (^ | & + - * / % << >> == != < > <= >= && ||), unary operators, indexing, method chains, calls with many arguments, struct/array/tuple literals, each short and padded with long identifiers so that the line wraps at every nesting level, in let / return / tail / if / while / match / argument / field / array / tuple / assignment / nested-block position; every ordered pair of item kinds (use const fn struct enum impl trait abi storage configurable) with 0-3 blank lines between them and with `//` and `/* */` comments whose text ends in `;` `}` `{` `)` `,` or a word, with 0-2 blank lines before/after, at top of file, end of file, first/last in a block, after the last statement. THEN every .sw file under /repo (thorough: all 2045; quick: 330 seed-sampled) as it is and in 2-3 variants "
         "(blank lines, trailing blanks, re-indentation/tabs, CRLF, white space and `//`, `/* */`, `///` comments at "
         "arbitrary token boundaries and line ends; deterministic in seed+path), each under the default config and "
         "one (quick) / all (thorough, unmodified file) of: newline_style Windows/Unix, max_width 60/140, hard_tabs, "
         "newline_threshold 2, field_alignment, and `reuse` (one Formatter instance for both passes, as forc-fmt does). "
         "out1 = Formatter::format(src), out2 = Formatter::format(out1), both under catch_unwind; prop = (out2 == out1) "
         "whenever the formatter accepted src. kernel: random texts over {LF, CRLF, CR, CRCRLF, letters, ...} through the "
         "verif hooks apply_newline_style / format_newline_sequence vs the Lean model (agree) and the kernel theorems' "
         "statements evaluated on the real result (prop). non-trivial = formatter accepted the input; distinct by (cfg,id)",
    trusted_base=["Model/FmtSpec.lean: toUnix/toWindows/applyStyle/autoDetect = newline_style.rs + NewlineSystemType "
                  "(cfg!(windows) = false), fmtNewlineSeq = format_newline_sequence; tied by correspondence through "
                  "swayfmt::verif_hooks (feature fuellabs_sway_verif)",
                  "NOT modelled: the formatter (swayfmt/src/items, utils/language, comments.rs, utils/map/newline.rs "
                  "placement logic); its idempotence is only evaluated per input (string comparison in the harness)",
                  "fingerprint `fp=` of a difference (harness) only routes known findings, it is not part of the verdict"],
    assumptions=["idempotence of the Unix conversion needs a text without CR CR LF (toUnix_not_idempotent is the witness)",
                 "a source the formatter rejects (FormatterError) or panics on is outside the statement of C18"],
)


def run(tier, seed):
    return svlib.run_spec(SPEC, tier, seed)


MANIFEST = dict(
    claimed=True,
    technique="Lean 4 theorems about the newline-style and blank-line-clamp kernels (all texts) tied to the code by "
              "correspondence through verif hooks + per-input validation of format(format x) = format x on the real formatter",
    text="translation_validation: newline_style_idempotent / newline_style_preserves_tokens / newline_clamp_idempotent are "
         "proved for all texts of the kernel models; the formatter as a whole is not modelled (C18_partial says so) and its "
         "idempotence is decided per input on every .sw file of the repository and on generated variants under 9 configurations.",
    note="trusted: Lean kernel, the kernel models, harness generators, rustc. The unchanged upstream formatter is NOT idempotent on "
         "about 1% of the repository's own files; three root causes were repaired (fix: commits), the rest are listed in known_findings.json.",
)
